// C08 — aligners return an optimal-scoring alignment.
//
// The score is recomputed from the returned pairs, the letters and the
// parameters (the reported numbers are C09's business) and compared with an
// independent reference: the textbook three-state recurrence with all
// transitions, itself cross-checked against literal enumeration of every
// alignment on tiny inputs.
package c08

import (
	"fmt"
	"os"
	"strings"
	"testing"

	"pgregory.net/rapid"

	ax "verif/internal/alignx"
	"verif/internal/vlib"
)

func TestMain(m *testing.M) { vlib.Main(m, "C08"); os.Exit(0) }

var aligners = []string{"NW", "SW", "Fitted", "NWAffine", "SWAffine", "FittedAffine"}

func check(c ax.Case) *vlib.Failure {
	alpha := ax.Alpha(c.Alpha)
	r, q := ax.Indices(alpha, c.R), ax.Indices(alpha, c.Q)
	n, m := len(r), len(q)
	sc := ax.Scoring{M: c.Mat.Build(alpha.Len()), Open: c.GapOpen, Affine: c.Affine()}
	ps, _, err := c.Run()
	desc := fmt.Sprintf("%s r=%q q=%q open=%d mat=%+v", c.Aligner, c.R, c.Q, c.GapOpen, c.Mat)
	if err != nil {
		return vlib.Failf("error", "%s: %v", desc, err)
	}
	if pe := ax.CheckPath(ps, n, m); pe != nil {
		return vlib.Failf("malformed-path", "%s: %s (pairs %v)", desc, pe.Error(), ps)
	}
	first, last := ps[0], ps[len(ps)-1]
	total := ax.TotalScore(ps, r, q, sc)
	tiny := n <= 4 && m <= 4
	var unrestricted, restricted int
	switch c.Aligner {
	case "NW", "NWAffine":
		if first.AS != 0 || first.BS != 0 || last.AE != n || last.BE != m {
			return vlib.Failf("not-global", "%s: the alignment spans r[%d,%d) q[%d,%d), not both sequences entirely (pairs %v)", desc, first.AS, last.AE, first.BS, last.BE, ps)
		}
		unrestricted = ax.Global(r, q, sc, true)
		restricted = ax.Global(r, q, sc, false)
		if tiny {
			if b := ax.BruteGlobal(r, q, sc, true); b != unrestricted {
				return vlib.Failf("oracle-self-check", "%s: reference %d, enumeration %d", desc, unrestricted, b)
			}
			if b := ax.BruteGlobal(r, q, sc, false); b != restricted {
				return vlib.Failf("oracle-self-check", "%s: restricted reference %d, enumeration %d", desc, restricted, b)
			}
		}
	case "SW", "SWAffine":
		unrestricted = ax.Local(r, q, sc, true)
		restricted = ax.Local(r, q, sc, false)
		if tiny {
			if b := ax.BruteLocal(r, q, sc, true); b != unrestricted {
				return vlib.Failf("oracle-self-check", "%s: local reference %d, enumeration %d", desc, unrestricted, b)
			}
		}
	case "Fitted", "FittedAffine":
		if first.BS != 0 || last.BE != m {
			return vlib.Failf("query-not-consumed", "%s: the alignment covers q[%d,%d) of a query of length %d (pairs %v)", desc, first.BS, last.BE, m, ps)
		}
		e := last.AE
		unrestricted = ax.FittedAt(r, q, e, sc, true, false)
		restricted = ax.FittedAt(r, q, e, sc, false, c.Aligner == "FittedAffine")
		if tiny {
			if b := ax.BruteFittedAt(r, q, e, sc, true); b != unrestricted {
				return vlib.Failf("oracle-self-check", "%s: fitted reference %d for end %d, enumeration %d", desc, unrestricted, e, b)
			}
		}
	}
	if !c.Affine() {
		restricted = unrestricted
	}
	switch {
	case total > unrestricted:
		return vlib.Failf("score-above-optimum", "%s: the returned alignment %v scores %d, more than the optimum %d", desc, ps, total, unrestricted)
	case total == unrestricted:
		vlib.Count("optimal", 1)
		if restricted == unrestricted {
			vlib.Count("decided-without-any-known-finding", 1)
		}
		return nil
	case total < restricted:
		return vlib.Failf("suboptimal", "%s: the returned alignment %v scores %d; the optimum is %d (%d without a gap in one sequence directly followed by a gap in the other)", desc, ps, total, unrestricted, restricted)
	}
	// restricted <= total < unrestricted: the result is optimal within a class of alignments
	// the affine implementations are restricted to
	if c.Aligner == "FittedAffine" {
		if mid := ax.FittedAt(r, q, last.AE, sc, false, false); total < mid {
			return vlib.Failf("fitted-affine-restricted-class", "%s: the returned alignment %v scores %d; the optimum for end %d is %d, and %d among alignments without adjacent opposite gaps; the aligner only ends on a match column and cannot open with a query gap at a free start", desc, ps, total, last.AE, unrestricted, mid)
		}
	}
	return vlib.Failf("adjacent-opposite-gaps-not-modelled", "%s: the returned alignment %v scores %d; the optimum %d needs a gap in one sequence directly followed by a gap in the other (best without: %d)", desc, ps, total, unrestricted, restricted)
}

func genMat(t *rapid.T, tieBias bool) ax.MatSpec {
	var m ax.MatSpec
	lo, hi := -6, 6
	if tieBias {
		lo, hi = -2, 2
	}
	nd := rapid.IntRange(1, 4).Draw(t, "ndiag")
	for i := 0; i < nd; i++ {
		m.Diag = append(m.Diag, rapid.IntRange(lo, hi).Draw(t, "diag"))
	}
	no := rapid.IntRange(1, 7).Draw(t, "noff")
	for i := 0; i < no; i++ {
		m.Off = append(m.Off, rapid.IntRange(lo, hi).Draw(t, "off"))
	}
	ng := rapid.IntRange(1, 3).Draw(t, "ngap")
	for i := 0; i < ng; i++ {
		m.GapRow = append(m.GapRow, rapid.IntRange(lo, 0).Draw(t, "gaprow"))
		m.GapCol = append(m.GapCol, rapid.IntRange(lo, 0).Draw(t, "gapcol"))
	}
	if rapid.Bool().Draw(t, "mismatch-above-two-gaps") {
		// substitution >= gap+gap: adjacent opposite gaps are never better than a mismatch
		for i := range m.Off {
			if m.Off[i] < -1 {
				m.Off[i] = -1
			}
		}
		for i := range m.Diag {
			if m.Diag[i] < 0 {
				m.Diag[i] = 1
			}
		}
		for i := range m.GapRow {
			if m.GapRow[i] > -1 {
				m.GapRow[i] = -1
			}
			if m.GapCol[i] > -1 {
				m.GapCol[i] = -1
			}
		}
	}
	return m
}

func genSeq(t *rapid.T, label, pool string, min, max int, from string) string {
	n := rapid.IntRange(min, max).Draw(t, label+"-len")
	b := make([]byte, n)
	for i := range b {
		if from != "" && rapid.IntRange(0, 3).Draw(t, label+"-copy") > 0 {
			b[i] = from[(i+len(from)/3)%len(from)] // share stretches with the other sequence
		} else {
			b[i] = pool[rapid.IntRange(0, len(pool)-1).Draw(t, label+"-l")]
		}
	}
	return string(b)
}

func genCase(t *rapid.T) ax.Case {
	c := ax.Case{Aligner: rapid.SampledFrom(aligners).Draw(t, "aligner"), Alpha: rapid.SampledFrom([]string{"DNAgapped", "DNAgapped", "Protein", "RNAgapped"}).Draw(t, "alpha"),
		QLetters: rapid.IntRange(0, 3).Draw(t, "qletters") == 0}
	pool := ax.Alpha(c.Alpha).Letters()
	pool = pool[1:ax.Alpha(c.Alpha).Len()] // lower-case letters without the gap
	if rapid.Bool().Draw(t, "small-pool") && len(pool) > 3 {
		pool = pool[:3]
	}
	switch rapid.IntRange(0, 9).Draw(t, "pool-extra") {
	case 3:
		// the gap letter is a letter of the alphabet like any other (index 0): a sequence may hold it
		pool = "-" + pool
	case 6:
		// the alphabets are case-insensitive: upper-case letters share the index of their lower-case forms
		pool = pool + strings.ToUpper(pool)
	}
	maxLen := 40
	if vlib.Thorough() {
		maxLen = 200
	}
	c.R = genSeq(t, "r", pool, 1, maxLen, "")
	c.Q = genSeq(t, "q", pool, 1, maxLen, c.R)
	if rapid.IntRange(0, 79).Draw(t, "large-table") == 41 {
		// a DP table of more than 65536 cells (pooled or chunked tables behave differently there)
		c.R = genSeq(t, "r-large", pool, 257, 420, "")
		c.Q = genSeq(t, "q-large", pool, 257, 420, c.R)
	}
	c.Mat = genMat(t, rapid.IntRange(0, 2).Draw(t, "tie-bias") == 0)
	if c.Affine() {
		c.GapOpen = rapid.IntRange(-6, 0).Draw(t, "open")
	}
	if len(c.R) <= 40 && len(c.Q) <= 40 && rapid.IntRange(0, 14).Draw(t, "large-scores") == 9 {
		// scores of magnitude 2^20 .. 2^31: sums leave the 32-bit range, stay below 2^40
		c.Mat.Scale = rapid.SampledFrom([]int{1 << 20, 1 << 28, 1 << 30, 1<<31 - 1}).Draw(t, "scale")
		c.GapOpen *= c.Mat.Scale
	}
	ax.GenUsage(t, &c, pool, func(t *rapid.T) ax.MatSpec { return genMat(t, false) })
	return c
}

func classes(c ax.Case) []string {
	l := []string{c.Aligner}
	if len(c.R) >= 2 && len(c.Q) >= 2 {
		l = append(l, vlib.NT)
	}
	if c.QLetters {
		l = append(l, "qletters")
	}
	l = append(l, c.UsageClasses()...)
	if (len(c.R)+1)*(len(c.Q)+1) >= 65536 {
		l = append(l, "table>=65536-cells")
	}
	if c.Mat.Scale > 1 {
		l = append(l, "scores-beyond-32-bits")
	}
	if strings.Contains(c.R+c.Q, "-") {
		l = append(l, "gap-letter-inside-a-sequence")
	}
	if strings.ToLower(c.R+c.Q) != c.R+c.Q {
		l = append(l, "upper-case-letters")
	}
	return l
}

func TestRandom(t *testing.T) {
	vlib.Run(t, vlib.Prop[ax.Case]{Name: "random-pairs", Checks: 6000, Thorough: 320000, Gen: genCase, Check: check, Classes: classes,
		MinFrac: map[string]float64{"NWAffine": 0.08, "SWAffine": 0.08, "FittedAffine": 0.08, "Fitted": 0.08, "matrix-larger-than-alphabet": 0.1, "matrix-object-reused-after-edit-in-place": 0.1}})
}

// ---- bounded-exhaustive: all pairs of short sequences over 2..3 letters x a panel of matrices ------------

var panel = []ax.MatSpec{
	{Diag: []int{1}, Off: []int{-1}, GapRow: []int{-1}, GapCol: []int{-1}},                   // identity-like
	{Diag: []int{2, 1}, Off: []int{-1, 0, -2}, GapRow: []int{-1, -2}, GapCol: []int{-2, -1}}, // asymmetric
	{Diag: []int{0}, Off: []int{0}, GapRow: []int{0}, GapCol: []int{0}},                      // all zero
	{Diag: []int{1}, Off: []int{1}, GapRow: []int{-1}, GapCol: []int{-1}},                    // ties everywhere
	{Diag: []int{2}, Off: []int{-3}, GapRow: []int{0}, GapCol: []int{0}},                     // zero gaps
	{Diag: []int{-1, 2}, Off: []int{-4}, GapRow: []int{-1}, GapCol: []int{-1}},               // negative diagonal, mismatch < gap+gap
}

func TestExhaustive(t *testing.T) {
	letters, maxLen := "ac", 3
	if vlib.Thorough() {
		letters, maxLen = "acg", 4
	}
	var seqs []string
	var build func(prefix string)
	build = func(prefix string) {
		if len(prefix) > 0 {
			seqs = append(seqs, prefix)
		}
		if len(prefix) == maxLen {
			return
		}
		for i := 0; i < len(letters); i++ {
			build(prefix + letters[i:i+1])
		}
	}
	build("")
	vlib.RunEnum(t, vlib.Enum[ax.Case]{Name: "exhaustive-short-pairs", DistinctByConstruction: true,
		Each: func(yield func(ax.Case) bool) {
			for _, al := range aligners {
				opens := []int{0}
				if al == "NWAffine" || al == "SWAffine" || al == "FittedAffine" {
					opens = []int{0, -1, -3}
				}
				for _, m := range panel {
					for _, o := range opens {
						for _, r := range seqs {
							for _, q := range seqs {
								if !yield(ax.Case{Aligner: al, Alpha: "DNAgapped", R: r, Q: q, Mat: m, GapOpen: o}) {
									return
								}
							}
						}
					}
				}
			}
		},
		Check: check, Classes: classes})
}
