//go:build verif

// C12 — concurrent-mode external sort is schedule independent.
//
// The harness owns the schedule at the verif step hooks of morass: a generated
// list of hold rules makes one goroutine wait at a step until another has
// passed a chosen step (or a timeout expires). The oracle is the multiset
// model of C11 plus the event-order invariant "when Finalise returns, every
// background writer that received a run has returned its buffer".
package c12

import (
	"fmt"
	"os"
	"sync"
	"testing"
	"time"

	"github.com/biogo/biogo/morass"
	"pgregory.net/rapid"

	mx "verif/internal/morassx"
	"verif/internal/sched"
	"verif/internal/vlib"
)

func TestMain(m *testing.M) { vlib.Main(m, "C12"); os.Exit(0) }

type schedCase struct {
	H     mx.History   `json:"history"`
	Rules []sched.Rule `json:"rules"`
}

// "write-sorting" is not a library hook: it is the first comparison a background writer asks of an
// element after it received its run (mx.LessHook), i.e. the writer is inside its sort.
var writerSteps = []string{"write-received", "write-sorting", "write-before-tempfile", "write-file-created", "write-file-registered", "write-before-encode", "write-before-sync", "write-return-buffer"}
var callerSteps = []string{"push-handoff", "push-got-buffer", "finalise-entry", "finalise-reads-files", "finalise-before-seek", "finalise-before-decode", "pull-before-decode"}

func genCase(t *rapid.T) schedCase {
	chunk := rapid.IntRange(1, 5).Draw(t, "chunk")
	nchunks := rapid.IntRange(1, 5).Draw(t, "nchunks")
	last := rapid.SampledFrom([]int{0, 1, chunk}).Draw(t, "last-chunk")
	n := (nchunks-1)*chunk + last
	if n < chunk {
		n = chunk + last // at least one spill, otherwise nothing is concurrent
	}
	h := mx.History{Chunk: chunk, Struct: rapid.Bool().Draw(t, "struct"), AutoClear: rapid.Bool().Draw(t, "auto-clear"), Concurrent: true}
	c := mx.Cycle{Pull: -1}
	for i := 0; i < n; i++ {
		c.Keys = append(c.Keys, rapid.IntRange(0, 9).Draw(t, "key"))
	}
	h.Cycles = []mx.Cycle{c}
	if rapid.IntRange(0, 3).Draw(t, "second-cycle") == 0 {
		c2 := mx.Cycle{Pull: -1}
		m := rapid.IntRange(0, 3*chunk).Draw(t, "n2")
		for i := 0; i < m; i++ {
			c2.Keys = append(c2.Keys, rapid.IntRange(0, 9).Draw(t, "key2"))
		}
		h.Cycles[0].Clear = true
		h.Cycles = append(h.Cycles, c2)
	}
	sc := schedCase{H: h}
	spills := n / chunk
	nr := rapid.IntRange(1, 3).Draw(t, "nrules")
	if spills >= 2 && rapid.IntRange(0, 11).Draw(t, "slow-writers") == 5 {
		// two successive writers are slow (a third of a second each, far longer than any other hold):
		// both recycled buffers are out and the caller has to wait for one of them
		st := rapid.SampledFrom(writerSteps[:7]).Draw(t, "slow-step")
		k := rapid.IntRange(0, spills-2).Draw(t, "slow-k")
		for j := 0; j < 2; j++ {
			r := sched.Rule{Step: st, Occ: k + j, Until: "finalise-returned", TimeoutMs: rapid.SampledFrom([]int{300, 340, 420}).Draw(t, "slow-ms")}
			if st == "write-before-encode" {
				r.Occ = (k + j) * chunk
			}
			sc.Rules = append(sc.Rules, r)
		}
		nr--
	}
	for i := 0; i < nr; i++ {
		var r sched.Rule
		r.TimeoutMs = rapid.SampledFrom([]int{30, 60, 120}).Draw(t, "timeout")
		switch rapid.IntRange(0, 6).Draw(t, "template") {
		case 0, 1: // Finalise overtakes a background writer
			r.Step = rapid.SampledFrom(writerSteps[:7]).Draw(t, "w-step")
			k := rapid.IntRange(0, max(0, spills-1)).Draw(t, "w-index")
			r.Occ = k
			if r.Step == "write-before-encode" {
				r.Occ = k*chunk + rapid.IntRange(0, chunk-1).Draw(t, "enc-i")
			}
			r.Until = rapid.SampledFrom([]string{"finalise-entry", "finalise-reads-files", "finalise-before-seek", "finalise-before-decode", "finalise-returned"}).Draw(t, "until-finalise")
			r.UntilOcc = 0
		case 2: // a later writer finishes while an earlier one is held
			r.Step = rapid.SampledFrom(writerSteps[:7]).Draw(t, "w-step")
			k := rapid.IntRange(0, max(0, spills-1)).Draw(t, "w-index")
			r.Occ = k
			if r.Step == "write-before-encode" {
				r.Occ = k * chunk
			}
			r.Until = "write-return-buffer"
			r.UntilOcc = k + rapid.IntRange(0, 1).Draw(t, "later")
		case 4: // two background writers reach the same step together (writer k waits for writer k+1)
			r.Step = rapid.SampledFrom([]string{"write-sorting", "write-file-created", "write-before-tempfile", "write-file-registered", "write-before-sync"}).Draw(t, "barrier-step")
			r.Occ = rapid.IntRange(0, max(0, spills-2)).Draw(t, "barrier-k")
			r.Until, r.UntilOcc = r.Step, r.Occ+1
			if r.Step == "write-sorting" && rapid.Bool().Draw(t, "until-sorted") {
				// writer k stays in its first comparison until another writer has finished sorting
				r.Until, r.UntilOcc = "write-before-tempfile", r.Occ
			}
		case 3: // the caller is held until a writer reaches a step
			r.Step = rapid.SampledFrom(callerSteps).Draw(t, "c-step")
			r.Occ = rapid.IntRange(0, max(0, spills)).Draw(t, "c-occ")
			r.Until = rapid.SampledFrom(writerSteps).Draw(t, "until-w")
			r.UntilOcc = rapid.IntRange(0, max(0, spills)).Draw(t, "until-occ")
		default: // anything
			all := append(append([]string{}, writerSteps...), callerSteps...)
			r.Step = rapid.SampledFrom(all).Draw(t, "any-step")
			r.Occ = rapid.IntRange(0, 6).Draw(t, "any-occ")
			r.Until = rapid.SampledFrom(all).Draw(t, "any-until")
			r.UntilOcc = rapid.IntRange(0, 6).Draw(t, "any-until-occ")
		}
		sc.Rules = append(sc.Rules, r)
	}
	return sc
}

const watchdog = 12 * time.Second

func check(c schedCase) *vlib.Failure {
	s, err := mx.NewSorter(c.H)
	if err != nil {
		return vlib.Failf("setup", "%v", err)
	}
	sc := sched.New(c.Rules, nil)
	// a writer is "sorting" from write-received to write-before-tempfile; its first comparison in
	// that window is reported to the scheduler as the step write-sorting
	var smu sync.Mutex
	sorting := map[int]int{} // goroutine -> 1 received, 2 first comparison reported
	morass.VerifHook = func(step string, f *os.File, i int) {
		switch step {
		case "write-received":
			smu.Lock()
			sorting[sched.GID()] = 1
			smu.Unlock()
		case "write-before-tempfile":
			smu.Lock()
			delete(sorting, sched.GID())
			smu.Unlock()
		}
		sc.Hook(step, f, i)
	}
	less := func() {
		g := sched.GID()
		smu.Lock()
		first := sorting[g] == 1
		if first {
			sorting[g] = 2
		}
		smu.Unlock()
		if first {
			sc.Hook("write-sorting", nil, 0)
		}
	}
	mx.LessHook.Store(&less)
	defer func() { morass.VerifHook = nil; mx.LessHook.Store(nil) }()

	type result struct {
		e   *mx.Err
		pan interface{}
	}
	done := make(chan result, 1)
	go func() {
		defer func() {
			if r := recover(); r != nil {
				done <- result{pan: r}
			}
		}()
		_, e := mx.RunWith(c.H, s, false, func(event string) *mx.Err {
			sc.Mark(event)
			if event == "finalise-returned" {
				// every writer that received a run must have finished with its file
				if rcv, ret := sc.Count("write-received"), sc.Count("write-return-buffer"); rcv != ret {
					return &mx.Err{Kind: "finalise-returned-early", Msg: fmt.Sprintf("Finalise returned while %d of %d background writers were still running", rcv-ret, rcv)}
				}
			}
			return nil
		})
		done <- result{e: e}
	}()
	var res result
	got := false
	select {
	case res = <-done:
		got = true
	case <-time.After(watchdog):
		if vlib.ConfirmDeadlock(150*time.Second, func() bool {
			select {
			case res = <-done:
				got = true
			default:
			}
			return got
		}) {
			return vlib.Failf("deadlock", "run did not finish (first bound %v; then every goroutine inside the sorter stayed blocked on a channel or lock); events: %s", watchdog, sc.Trace(60))
		}
	}
	// let background writers that were still held finish before the directory goes away
	for i := 0; i < 200 && sc.Count("write-received") != sc.Count("write-return-buffer"); i++ {
		time.Sleep(time.Millisecond)
	}
	s.Close()
	for _, h := range sc.Holds() {
		switch {
		case !h.Reached:
			vlib.Count("holds-not-reached", 1)
		case h.TimedOut:
			vlib.Count("holds-released-by-timeout", 1)
			if len(h.Rule.Until) > 8 && h.Rule.Until[:8] == "finalise" && sc.Count("finalise-entry") > 0 {
				// the writer was held while the caller had already entered Finalise: the caller had to wait for it
				vlib.Count("writer-held-while-finalise-entered", 1)
			}
		case h.Waited > time.Millisecond:
			vlib.Count("holds-that-reordered-the-run", 1)
		default:
			vlib.Count("holds-already-satisfied", 1)
		}
	}
	if res.pan != nil {
		return vlib.Failf("panic", "%v; events: %s", res.pan, sc.Trace(60))
	}
	if res.e != nil {
		return &vlib.Failure{Kind: res.e.Kind, Msg: res.e.Msg + "; rules " + fmt.Sprint(c.Rules) + "; events: " + sc.Trace(80)}
	}
	return nil
}

func classes(c schedCase) []string {
	var l []string
	n := len(c.H.Cycles[0].Keys)
	spills := n / c.H.Chunk
	l = append(l, fmt.Sprintf("spills=%d", min(spills, 4)))
	if n%c.H.Chunk == 0 {
		l = append(l, "last-chunk-full")
	}
	over := false
	for _, r := range c.Rules {
		for _, w := range writerSteps {
			if r.Step == w && len(r.Until) > 8 && r.Until[:8] == "finalise" {
				over = true
			}
		}
	}
	if over {
		l = append(l, "finalise-overtakes-writer")
	}
	if len(c.H.Cycles) > 1 {
		l = append(l, "two-cycles")
	}
	for _, r := range c.Rules {
		if r.Step == "write-sorting" && c.H.Chunk >= 2 && r.Occ+1 < spills && (r.Until == "write-sorting" || r.Until == "write-before-tempfile") {
			l = append(l, "writer-held-inside-its-sort-until-the-next-sorts")
			break
		}
	}
	slow := 0
	for _, r := range c.Rules {
		if r.TimeoutMs >= 300 {
			slow++
		}
	}
	if slow >= 2 {
		l = append(l, "two-writers-slower-than-a-quarter-second")
	}
	if over || spills >= 2 {
		l = append(l, vlib.NT)
	}
	return l
}

func TestSchedules(t *testing.T) {
	vlib.Run(t, vlib.Prop[schedCase]{Name: "hooked-schedules", Checks: 400, Thorough: 24000, Gen: genCase, Check: check, Classes: classes,
		MinFrac: map[string]float64{"finalise-overtakes-writer": 0.25}})
}
