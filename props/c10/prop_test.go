// C10 — k-mer index returns exactly the occurrences of every k-mer.
//
// Oracle: a naive scan of the sequence string written here (no bit tricks).
package c10

import (
	"fmt"
	"os"
	"sort"
	"strings"
	"sync"
	"testing"

	"github.com/biogo/biogo/alphabet"
	"github.com/biogo/biogo/feat"
	"github.com/biogo/biogo/index/kmerindex"
	"github.com/biogo/biogo/seq/linear"
	"pgregory.net/rapid"

	"verif/internal/vlib"
)

func TestMain(m *testing.M) { vlib.Main(m, "C10"); os.Exit(0) }

type kmerCase struct {
	K     int    `json:"k"`
	Seq   string `json:"seq"`
	Other string `json:"other,omitempty"` // a second sequence iterated with the same index
	Start int    `json:"start"`
	End   int    `json:"end"`
	RNA   bool   `json:"rna,omitempty"`
	Probe []int  `json:"probe,omitempty"` // extra word codes to query (mod 4^k)
	// Alpha, when set, is the definition of a user-built case-insensitive
	// four-letter alphabet (any letters, any order, declared in either case).
	Alpha string `json:"alpha,omitempty"`
	// OStart, OEnd: the range iterated on Other (independent of the indexed
	// sequence: Other may be longer than it).
	OStart int `json:"ostart,omitempty"`
	OEnd   int `json:"oend,omitempty"`
	// Offset: the location-relative offset given to the indexed sequence (and, negated, to the foreign
	// one). The index works on letter positions counted from 0 whatever the offset.
	Offset int `json:"offset,omitempty"`
}

func (c kmerCase) letters() string {
	if c.Alpha != "" {
		return strings.ToLower(c.Alpha)
	}
	if c.RNA {
		return "acgu"
	}
	return "acgt"
}

var customAlphabets sync.Map

func (c kmerCase) alpha() alphabet.Alphabet {
	if c.Alpha != "" {
		if a, ok := customAlphabets.Load(c.Alpha); ok {
			return a.(alphabet.Alphabet)
		}
		a, err := alphabet.NewAlphabet(c.Alpha, feat.DNA, '-', 'n', false)
		if err != nil {
			panic(fmt.Sprintf("harness: NewAlphabet(%q): %v", c.Alpha, err))
		}
		customAlphabets.Store(c.Alpha, a)
		return a
	}
	if c.RNA {
		return alphabet.RNA
	}
	return alphabet.DNA
}

// code returns the 2-bit code of a word, or -1 if it has an invalid letter.
func code(letters, w string) int {
	v := 0
	for i := 0; i < len(w); i++ {
		x := strings.IndexByte(letters, w[i]|0x20)
		if x < 0 || !(w[i] >= 'a' && w[i] <= 'z' || w[i] >= 'A' && w[i] <= 'Z') {
			return -1
		}
		v = v*4 + x
	}
	return v
}

func wordOf(letters string, k, v int) string {
	b := make([]byte, k)
	for i := k - 1; i >= 0; i-- {
		b[i] = letters[v%4]
		v /= 4
	}
	return string(b)
}

type window struct{ pos, code int }

// scan lists the valid windows of s[start:end) in increasing order.
func scan(letters, s string, k, start, end int) []window {
	var out []window
	for p := start; p+k <= end && p+k <= len(s); p++ {
		if p < 0 {
			continue
		}
		if c := code(letters, s[p:p+k]); c >= 0 {
			out = append(out, window{p, c})
		}
	}
	return out
}

func revcomp(letters, w string) string {
	b := make([]byte, len(w))
	for i := 0; i < len(w); i++ {
		b[len(w)-1-i] = letters[3-strings.IndexByte(letters, w[i])]
	}
	return string(b)
}

func check(c kmerCase) *vlib.Failure {
	letters := c.letters()
	s := linear.NewSeq("s", alphabet.BytesToLetters([]byte(c.Seq)), c.alpha())
	s.SetOffset(c.Offset)
	ki, err := kmerindex.New(c.K, s)
	if err != nil {
		return vlib.Failf("new", "New(%d, len %d): %v", c.K, len(c.Seq), err)
	}
	all := scan(letters, c.Seq, c.K, 0, len(c.Seq))
	counts := map[int]int{}
	positions := map[int][]int{}
	for _, w := range all {
		counts[w.code]++
		positions[w.code] = append(positions[w.code], w.pos)
	}

	// sub-range iteration (before Build, which must not matter)
	iter := func(tag string, target *linear.Seq, text string, start, end int) *vlib.Failure {
		var got []window
		err := ki.ForEachKmerOf(target, start, end, func(_ *kmerindex.Index, pos, kmer int) { got = append(got, window{pos, kmer}) })
		want := scan(letters, text, c.K, start, end)
		if len(got) != len(want) {
			return vlib.Failf("iterate", "%s ForEachKmerOf(%d,%d) on %q (k=%d) visited %d windows %v, the valid windows are %d %v (err %v)", tag, start, end, clip(text), c.K, len(got), clipW(got), len(want), clipW(want), err)
		}
		for i := range want {
			if got[i] != want[i] {
				return vlib.Failf("iterate", "%s ForEachKmerOf(%d,%d) on %q (k=%d): visit %d is (pos %d, %s) want (pos %d, %s)", tag, start, end, clip(text), c.K, i, got[i].pos, wordOf(letters, c.K, got[i].code), want[i].pos, wordOf(letters, c.K, want[i].code))
			}
		}
		return nil
	}
	if f := iter("range", s, c.Seq, c.Start, c.End); f != nil {
		return f
	}
	otherIter := func(tag string) *vlib.Failure {
		if c.Other == "" {
			return nil
		}
		o := linear.NewSeq("o", alphabet.BytesToLetters([]byte(c.Other)), c.alpha())
		o.SetOffset(-c.Offset)
		return iter(tag, o, c.Other, c.OStart, c.OEnd)
	}
	if f := otherIter("other-sequence"); f != nil {
		return f
	}

	// frequencies before Build
	freq, ok := ki.KmerFrequencies()
	if !ok {
		return vlib.Failf("frequencies", "KmerFrequencies() not available before Build")
	}
	if len(freq) != len(counts) {
		return vlib.Failf("frequencies", "%d words with non-zero frequency, scan finds %d (seq %q k=%d)", len(freq), len(counts), clip(c.Seq), c.K)
	}
	for w, n := range counts {
		if freq[kmerindex.Kmer(w)] != n {
			return vlib.Failf("frequencies", "frequency of %s = %d, scan counts %d (seq %q)", wordOf(letters, c.K, w), freq[kmerindex.Kmer(w)], n, clip(c.Seq))
		}
	}
	// the relative frequency table: the same words, values proportional to the counts
	nfreq, ok := ki.NormalisedKmerFrequencies()
	if !ok || len(nfreq) != len(counts) {
		return vlib.Failf("frequencies", "NormalisedKmerFrequencies() before Build = %d words, %v; scan finds %d distinct words (seq %q k=%d)", len(nfreq), ok, len(counts), clip(c.Seq), c.K)
	}
	unit := 0.0
	for w, n := range counts {
		v, present := nfreq[kmerindex.Kmer(w)]
		if !present || !(v > 0) {
			return vlib.Failf("frequencies", "relative frequency of %s = %v (present %v), the word occurs %d times (seq %q)", wordOf(letters, c.K, w), v, present, n, clip(c.Seq))
		}
		if unit == 0 {
			unit = v / float64(n)
		}
		if d := v/float64(n) - unit; d > 1e-12*unit || d < -1e-12*unit {
			return vlib.Failf("frequencies", "relative frequencies are not proportional to the counts: %s occurs %d times and has %v, another word has %v per occurrence (seq %q)", wordOf(letters, c.K, w), n, v, unit, clip(c.Seq))
		}
	}
	// the tables handed out are the caller's: it filters and rescales them; a second read gives the counts again
	for w := range freq {
		if freq[w] == 1 || w%2 == 0 {
			delete(freq, w)
		} else {
			freq[w] = 0
		}
	}
	for w := range nfreq {
		nfreq[w] = -1
	}
	freq2, ok := ki.KmerFrequencies()
	if !ok || len(freq2) != len(counts) {
		return vlib.Failf("frequencies-second-read", "second KmerFrequencies(), after the caller filtered the first table: %d words, %v; scan finds %d (seq %q k=%d)", len(freq2), ok, len(counts), clip(c.Seq), c.K)
	}
	for w, n := range counts {
		if freq2[kmerindex.Kmer(w)] != n {
			return vlib.Failf("frequencies-second-read", "second KmerFrequencies(), after the caller edited the first table: frequency of %s = %d, scan counts %d (seq %q)", wordOf(letters, c.K, w), freq2[kmerindex.Kmer(w)], n, clip(c.Seq))
		}
	}
	nfreq2, ok := ki.NormalisedKmerFrequencies()
	if !ok || len(nfreq2) != len(counts) {
		return vlib.Failf("frequencies-second-read", "second NormalisedKmerFrequencies(): %d words, %v; scan finds %d (seq %q k=%d)", len(nfreq2), ok, len(counts), clip(c.Seq), c.K)
	}
	for w, n := range counts {
		if v := nfreq2[kmerindex.Kmer(w)]; !(v > 0) || v/float64(n)-unit > 1e-12*unit || v/float64(n)-unit < -1e-12*unit {
			return vlib.Failf("frequencies-second-read", "second NormalisedKmerFrequencies(), after the caller edited the first tables: %s occurs %d times and has %v, want %v (seq %q)", wordOf(letters, c.K, w), n, v, unit*float64(n), clip(c.Seq))
		}
	}
	if _, ok := ki.KmerIndex(); ok {
		return vlib.Failf("state", "KmerIndex() available before Build")
	}
	if _, ok := ki.StringKmerIndex(); ok {
		return vlib.Failf("state", "StringKmerIndex() available before Build")
	}

	ki.Build()
	if okc, found := ki.Check(); !okc || found != len(all) {
		return vlib.Failf("check", "Check() = %v, %d; scan finds %d valid windows (seq %q k=%d)", okc, found, len(all), clip(c.Seq), c.K)
	}
	if _, ok := ki.KmerFrequencies(); ok {
		return vlib.Failf("state", "KmerFrequencies() still available after Build")
	}
	if _, ok := ki.NormalisedKmerFrequencies(); ok {
		return vlib.Failf("state", "NormalisedKmerFrequencies() still available after Build")
	}
	// the raw tables (copies): after Build finger[w] is the end of word w's bucket in pos, the bucket of
	// word w starting where that of w-1 ends, and the bucket holds exactly the word's positions
	finger, pos := ki.Finger(), ki.Pos()
	if c.K <= 8 {
		if len(finger) < 1<<(2*uint(c.K)) {
			return vlib.Failf("raw-tables", "Finger() has %d entries for k=%d", len(finger), c.K)
		}
		lo := 0
		for w := 0; w < 1<<(2*uint(c.K)); w++ {
			hi := int(finger[w])
			if hi < lo || hi > len(pos) {
				return vlib.Failf("raw-tables", "Finger()[%s] = %d after a bucket ending at %d (Pos() has %d entries)", wordOf(letters, c.K, w), hi, lo, len(pos))
			}
			g := append([]int(nil), pos[lo:hi]...)
			sort.Ints(g)
			if !equalInts(g, positions[w]) {
				return vlib.Failf("raw-tables", "bucket of %s in Pos() = %v, the word occurs at %v (seq %q k=%d)", wordOf(letters, c.K, w), clipI(g), clipI(positions[w]), clip(c.Seq), c.K)
			}
			lo = hi
		}
		if lo != len(all) {
			return vlib.Failf("raw-tables", "the buckets of Pos() hold %d positions, scan finds %d valid windows", lo, len(all))
		}
	}
	// they are copies: the caller overwrites them, the answers below are unaffected
	for i := range finger {
		finger[i] = 0
	}
	for i := range pos {
		pos[i] = -3
	}
	query := func(w int) *vlib.Failure {
		got, err := ki.KmerPositions(kmerindex.Kmer(w))
		if err != nil {
			return vlib.Failf("positions", "KmerPositions(%s): %v", wordOf(letters, c.K, w), err)
		}
		g := append([]int(nil), got...)
		sort.Ints(g)
		want := positions[w]
		if !equalInts(g, want) {
			return vlib.Failf("positions", "KmerPositions(%s) = %v, the word occurs at %v (seq %q k=%d)", wordOf(letters, c.K, w), clipI(g), clipI(want), clip(c.Seq), c.K)
		}
		// the caller may do what it likes with the returned slice: the next
		// answer for the same word is unaffected
		for i := range got {
			got[i] = -7 - i
		}
		if len(got) > 0 {
			got = append(got[:0], got[len(got)-1])
		}
		again, err := ki.KmerPositions(kmerindex.Kmer(w))
		g = append([]int(nil), again...)
		sort.Ints(g)
		if err != nil || !equalInts(g, want) {
			return vlib.Failf("positions", "KmerPositions(%s) asked again after the caller overwrote the first answer = %v, %v; the word occurs at %v", wordOf(letters, c.K, w), clipI(g), err, clipI(want))
		}
		word := wordOf(letters, c.K, w)
		if w%3 == 0 {
			word = strings.ToUpper(word)
		}
		gs, err := ki.KmerPositionsString(word)
		if err != nil {
			return vlib.Failf("positions", "KmerPositionsString(%s): %v", word, err)
		}
		g2 := append([]int(nil), gs...)
		sort.Ints(g2)
		if !equalInts(g2, want) {
			return vlib.Failf("positions", "KmerPositionsString(%s) = %v, the word occurs at %v (seq %q)", word, clipI(g2), clipI(want), clip(c.Seq))
		}
		return nil
	}
	nwords := 1 << (2 * uint(c.K))
	if c.K <= 6 {
		for w := 0; w < nwords; w++ {
			if f := query(w); f != nil {
				return f
			}
		}
	} else {
		for w := range positions {
			if f := query(w); f != nil {
				return f
			}
		}
		for _, p := range c.Probe {
			if f := query(((p % nwords) + nwords) % nwords); f != nil {
				return f
			}
		}
	}
	if c.K <= 8 {
		idx, ok := ki.KmerIndex()
		if !ok {
			return vlib.Failf("state", "KmerIndex() not available after Build")
		}
		total := 0
		for w, ps := range idx {
			total += len(ps)
			if len(positions[int(w)]) != len(ps) {
				return vlib.Failf("kmerindex-map", "KmerIndex()[%s] has %d positions, scan finds %d", wordOf(letters, c.K, int(w)), len(ps), len(positions[int(w)]))
			}
		}
		if total != len(all) || len(idx) != len(positions) {
			return vlib.Failf("kmerindex-map", "KmerIndex() holds %d positions for %d words; scan finds %d valid windows of %d distinct words", total, len(idx), len(all), len(positions))
		}
		sidx, _ := ki.StringKmerIndex()
		if len(sidx) != len(positions) {
			return vlib.Failf("kmerindex-map", "StringKmerIndex() has %d words, scan finds %d", len(sidx), len(positions))
		}
		for w, want := range positions {
			g := append([]int(nil), sidx[wordOf(letters, c.K, w)]...)
			sort.Ints(g)
			if !equalInts(g, want) {
				return vlib.Failf("kmerindex-map", "StringKmerIndex()[%s] = %v want %v", wordOf(letters, c.K, w), clipI(g), clipI(want))
			}
		}
	}
	// the same questions again after the whole-index maps were asked for (an index that keeps what it
	// computed for them must still answer every spelling of a word)
	asked := 0
	for w := range positions {
		if asked++; asked > 40 {
			break
		}
		if f := query(w); f != nil {
			f.Msg += " (asked again after KmerIndex() / StringKmerIndex())"
			return f
		}
	}
	// sub-range iteration again after Build
	if f := iter("range-after-build", s, c.Seq, c.Start, c.End); f != nil {
		return f
	}
	if f := otherIter("other-sequence-after-build"); f != nil {
		return f
	}

	// encoding / formatting / GC / reverse complement against string operations
	words := c.Probe
	for w := range positions {
		words = append(words, w)
		if len(words) > 40 {
			break
		}
	}
	for _, p := range words {
		w := ((p % nwords) + nwords) % nwords
		word := wordOf(letters, c.K, w)
		if got := ki.Format(kmerindex.Kmer(w)); got != word {
			return vlib.Failf("format", "Format(%d) = %q want %q", w, got, word)
		}
		for _, txt := range []string{word, strings.ToUpper(word)} {
			got, err := ki.KmerOf(txt)
			if err != nil || int(got) != w {
				return vlib.Failf("kmerof", "KmerOf(%q) = %d, %v want %d", txt, got, err, w)
			}
			got, err = kmerindex.KmerOf(c.K, c.alpha().LetterIndex(), txt)
			if err != nil || int(got) != w {
				return vlib.Failf("kmerof", "kmerindex.KmerOf(%q) = %d, %v want %d", txt, got, err, w)
			}
		}
		gc := 0
		for i := 0; i < len(word); i++ {
			if word[i] == 'g' || word[i] == 'c' {
				gc++
			}
		}
		if got, want := ki.GCof(kmerindex.Kmer(w)), float64(gc)/float64(c.K); (letters == "acgt" || letters == "acgu") && got != want {
			return vlib.Failf("gc", "GCof(%s) = %v want %v", word, got, want)
		}
		rc := code(letters, revcomp(letters, word))
		if got := ki.ComplementOf(kmerindex.Kmer(w)); int(got) != rc {
			return vlib.Failf("complement", "ComplementOf(%s) = %s want %s (k=%d)", word, wordOf(letters, c.K, int(got)), revcomp(letters, word), c.K)
		}
	}
	// a word with an illegal letter is rejected
	bad := []byte(wordOf(letters, c.K, 0))
	bad[len(bad)/2] = 'n'
	if _, err := ki.KmerOf(string(bad)); err == nil {
		return vlib.Failf("kmerof", "KmerOf(%q) accepted an illegal letter", bad)
	}
	if _, err := ki.KmerPositions(kmerindex.Kmer(nwords)); err == nil {
		return vlib.Failf("positions", "KmerPositions(4^k) accepted an out of range word")
	}
	return nil
}

func equalInts(a, b []int) bool {
	if len(a) != len(b) {
		return false
	}
	for i := range a {
		if a[i] != b[i] {
			return false
		}
	}
	return true
}

func clip(s string) string {
	if len(s) > 80 {
		return s[:80] + "…"
	}
	return s
}
func clipI(a []int) string {
	if len(a) > 12 {
		return fmt.Sprint(a[:12]) + "…"
	}
	return fmt.Sprint(a)
}
func clipW(a []window) string {
	if len(a) > 8 {
		return fmt.Sprint(a[:8]) + "…"
	}
	return fmt.Sprint(a)
}

func classes(c kmerCase) []string {
	var l []string
	if c.Offset != 0 {
		l = append(l, "indexed-sequence-with-an-offset")
	}
	if len(c.Seq) > 4096 {
		l = append(l, "sequence-longer-than-4096")
	}
	letters := c.letters()
	all := scan(letters, c.Seq, c.K, 0, len(c.Seq))
	inner := false
	for i := 1; i+1 < len(c.Seq); i++ {
		if strings.IndexByte(letters, c.Seq[i]|0x20) < 0 {
			inner = true
		}
	}
	lastWindow := len(all) > 0 && all[len(all)-1].pos == len(c.Seq)-c.K
	repeated := false
	cnt := map[int]int{}
	for _, w := range all {
		cnt[w.code]++
		if cnt[w.code] >= 2 {
			repeated = true
		}
	}
	if inner {
		l = append(l, "invalid-letter-inside")
	}
	if lastWindow {
		l = append(l, "window-ends-on-last-letter")
	}
	if repeated {
		l = append(l, "repeated-word")
	}
	if c.End-c.Start < c.K {
		l = append(l, "range-shorter-than-k")
	}
	if c.Start > 0 || c.End < len(c.Seq) {
		l = append(l, "proper-sub-range")
	}
	if strings.ToLower(c.Seq) != c.Seq {
		l = append(l, "upper-case")
	}
	if c.Alpha != "" {
		l = append(l, "user-built-alphabet")
		if strings.ToLower(c.Alpha) != c.Alpha {
			l = append(l, "user-built-alphabet-declared-in-upper-case")
		}
	}
	if c.Other != "" {
		l = append(l, "foreign-sequence")
		if c.OEnd > len(c.Seq) {
			l = append(l, "foreign-range-beyond-indexed-length")
		}
	}
	l = append(l, fmt.Sprintf("k=%d", c.K))
	if inner && lastWindow && repeated {
		l = append(l, vlib.NT)
	}
	return l
}

func genSeq(t *rapid.T, letters string, n int, label string) string {
	b := make([]byte, 0, n)
	pool := letters + strings.ToUpper(letters)
	for len(b) < n {
		switch rapid.IntRange(0, 11).Draw(t, label+"-seg") {
		case 0: // run of invalid letters
			r := rapid.IntRange(1, 6).Draw(t, label+"-badrun")
			for i := 0; i < r && len(b) < n; i++ {
				b = append(b, "nN-xXRy*"[rapid.IntRange(0, 7).Draw(t, label+"-bad")])
			}
		case 1, 2, 3, 4: // repeat an earlier stretch so that words recur
			if len(b) > 4 {
				st := rapid.IntRange(0, len(b)-4).Draw(t, label+"-repfrom")
				ln := rapid.IntRange(4, 12).Draw(t, label+"-replen")
				for i := 0; i < ln && len(b) < n && st+i < len(b); i++ {
					b = append(b, b[st+i])
				}
				continue
			}
			fallthrough
		default:
			r := rapid.IntRange(1, 15).Draw(t, label+"-run")
			lo := rapid.Bool().Draw(t, label+"-lower")
			for i := 0; i < r && len(b) < n; i++ {
				ch := pool[rapid.IntRange(0, 7).Draw(t, label+"-l")]
				if lo {
					ch |= 0x20
				}
				b = append(b, ch)
			}
		}
	}
	return string(b)
}

func gen(t *rapid.T) kmerCase {
	c := kmerCase{RNA: rapid.IntRange(0, 5).Draw(t, "rna") == 0}
	if rapid.IntRange(0, 4).Draw(t, "user-alphabet") == 0 {
		c.RNA = false
		c.Alpha = rapid.SampledFrom([]string{"ACGT", "AcGt", "acgt", "tgca", "TGCA", "wxyz", "WXyz", "ACGU", "gatc", "Gatc"}).Draw(t, "alpha")
	}
	c.K = rapid.SampledFrom([]int{4, 4, 4, 5, 5, 6, 6, 7, 8, 9, 10}).Draw(t, "k")
	if rapid.IntRange(0, 3).Draw(t, "with-offset") == 2 {
		c.Offset = rapid.SampledFrom([]int{1, 2, 3, 7, 50, 1000, -1, -5}).Draw(t, "offset")
	}
	maxLen := 300
	if vlib.Thorough() {
		maxLen = 5000
	}
	n := rapid.OneOf(rapid.IntRange(c.K+1, c.K+12), rapid.IntRange(c.K+1, 120), rapid.IntRange(c.K+1, maxLen)).Draw(t, "n")
	if rapid.IntRange(0, 39).Draw(t, "long-sequence") == 23 {
		// beyond 4096 and 8192 letters (block-wise or concurrent tabulation has its seams there)
		n = rapid.SampledFrom([]int{4096, 4097, 4100, 8191, 8192, 8200, 9000, 12300}).Draw(t, "n-long") + rapid.IntRange(0, 3).Draw(t, "n-long-plus")
	}
	c.Seq = genSeq(t, c.letters(), n, "seq")
	switch rapid.IntRange(0, 5).Draw(t, "range-class") {
	case 0:
		c.Start, c.End = 0, n
	case 1: // shorter than k
		c.Start = rapid.IntRange(0, n-c.K).Draw(t, "start")
		c.End = c.Start + rapid.IntRange(0, c.K-1).Draw(t, "short")
	case 2: // start near the end
		c.Start = rapid.IntRange(max(0, n-2*c.K), n-c.K+1).Draw(t, "start-late")
		c.End = n
	default:
		c.Start = rapid.IntRange(0, n-c.K+1).Draw(t, "start")
		c.End = n
		if rapid.Bool().Draw(t, "end-inside") {
			c.End = rapid.IntRange(min(c.Start+c.K, n), n).Draw(t, "end")
		}
	}
	if rapid.IntRange(0, 2).Draw(t, "other") == 0 {
		on := rapid.OneOf(rapid.IntRange(c.K, 80), rapid.IntRange(n+1, n+60), rapid.IntRange(c.K, maxLen)).Draw(t, "on")
		c.Other = genSeq(t, c.letters(), on, "other")
		switch rapid.IntRange(0, 3).Draw(t, "orange-class") {
		case 0:
			c.OStart, c.OEnd = 0, on
		case 1:
			c.OStart = rapid.IntRange(0, on-c.K).Draw(t, "ostart")
			c.OEnd = c.OStart + rapid.IntRange(0, c.K).Draw(t, "oshort")
		default:
			c.OStart = rapid.IntRange(0, on-c.K).Draw(t, "ostart")
			c.OEnd = rapid.IntRange(min(c.OStart+c.K, on), on).Draw(t, "oend")
		}
	}
	np := rapid.IntRange(0, 6).Draw(t, "nprobe")
	for i := 0; i < np; i++ {
		c.Probe = append(c.Probe, rapid.IntRange(0, 1<<20).Draw(t, "probe"))
	}
	return c
}

func TestRandom(t *testing.T) {
	vlib.Run(t, vlib.Prop[kmerCase]{Name: "random-sequences", Checks: 3000, Thorough: 160000, Gen: gen, Check: check, Classes: classes,
		MinFrac: map[string]float64{"invalid-letter-inside": 0.3, "window-ends-on-last-letter": 0.2, "repeated-word": 0.2, "range-shorter-than-k": 0.08, vlib.NT: 0.05}})
}

// ---- bounded-exhaustive: every sequence over {a,c,g,t,n} of length 5..8 at k = 4 --------

func TestExhaustive(t *testing.T) {
	maxLen := 6
	if vlib.Thorough() {
		maxLen = 8
	}
	const sym = "acgtn"
	vlib.RunEnum(t, vlib.Enum[kmerCase]{Name: "exhaustive-k4", DistinctByConstruction: true,
		Each: func(yield func(kmerCase) bool) {
			for n := 5; n <= maxLen; n++ {
				total := 1
				for i := 0; i < n; i++ {
					total *= 5
				}
				b := make([]byte, n)
				for v := 0; v < total; v++ {
					x := v
					for i := n - 1; i >= 0; i-- {
						b[i] = sym[x%5]
						x /= 5
					}
					// the sub-range rotates through all (start,end) pairs deterministically
					st := v % (n - 3)
					en := st + (v/7)%(n-st+1)
					if !yield(kmerCase{K: 4, Seq: string(b), Start: st, End: en}) {
						return
					}
				}
			}
		},
		Check: check,
		Classes: func(c kmerCase) []string {
			l := []string{fmt.Sprintf("len=%d", len(c.Seq))}
			if strings.Contains(c.Seq[1:len(c.Seq)-1], "n") && len(scan("acgt", c.Seq, 4, 0, len(c.Seq))) > 0 {
				l = append(l, vlib.NT)
			}
			return l
		}})
}
