// C05 — reverse-complement, reverse and clone obey their algebra on all sequence types.
package c05

import (
	"fmt"
	"os"
	"strings"
	"testing"

	"github.com/biogo/biogo/alphabet"
	"github.com/biogo/biogo/seq"
	"github.com/biogo/biogo/seq/alignment"
	"github.com/biogo/biogo/seq/linear"
	"github.com/biogo/biogo/seq/multi"
	"pgregory.net/rapid"

	sm "verif/internal/seqmodel"
	"verif/internal/vlib"
)

func TestMain(m *testing.M) { vlib.Main(m, "C05"); os.Exit(0) }

// op kinds:
//
//	revcomp, reverse                 applied to target (0 = original, 1 = clone)
//	clone                            B = A.Clone() (only once)
//	set                              Row(r).Set(pos, letter)           (mutation used for independence)
//	row-revcomp                      Row(r).RevComp()
//	append                           AppendColumns of one column        (aligned kinds)
//	delete                           Delete(r)                          (alignment, multi; rows >= 2)
//	row-setoffset                    Row(r).SetOffset(o)                (multi rows / linear)
//	setoffset                        SetOffset(o) on the container itself (all but multi.Set)
type op struct {
	Kind   string `json:"kind"`
	Target int    `json:"target"`
	Row    int    `json:"row"`
	Pos    int    `json:"pos"`
	Letter int    `json:"letter"`
	Q      int    `json:"q"`
	Off    int    `json:"off"`
}

type algebraCase struct {
	Spec sm.Spec `json:"spec"`
	Ops  []op    `json:"ops"`
}

var compAlphas = []string{"DNA", "DNAgapped", "DNAredundant", "RNA", "RNAgapped", "RNAredundant", "PairedProtein"}
var kinds = []string{"lseq", "lqseq", "aseq", "aqseq", "multi", "multiq", "set", "setq"}

func genLetters(t *rapid.T, alpha string, n int) string {
	pool := sm.PairedLetters(alpha)
	b := make([]byte, n)
	for i := range b {
		b[i] = pool[rapid.IntRange(0, len(pool)-1).Draw(t, "l")]
	}
	return string(b)
}

func genQ(t *rapid.T, n int) []int {
	q := make([]int, n)
	for i := range q {
		q[i] = rapid.IntRange(0, 93).Draw(t, "q")
	}
	return q
}

func genSpec(t *rapid.T, kindPool []string, maxLen int) sm.Spec {
	s := sm.Spec{Kind: rapid.SampledFrom(kindPool).Draw(t, "kind"), Alpha: rapid.SampledFrom(compAlphas).Draw(t, "alpha")}
	nrows := 1
	if !s.IsLinear() {
		nrows = rapid.IntRange(1, 5).Draw(t, "nrows")
	}
	minLen := 0
	if s.Aligned() {
		minLen = 1 // Rows() of a column-stored alignment is defined from its first column
	}
	n := rapid.IntRange(minLen, maxLen).Draw(t, "len")
	for i := 0; i < nrows; i++ {
		l := n
		off := 0
		if s.IsMulti() || s.IsSet() {
			switch rapid.IntRange(0, 3).Draw(t, "ragged") {
			case 0: // flush
			default:
				l = rapid.IntRange(0, maxLen).Draw(t, "rowlen")
			}
			off = rapid.SampledFrom([]int{0, 0, 0, 1, 3, 5, 12, -4, 40}).Draw(t, "offset")
		}
		if s.IsLinear() {
			off = rapid.SampledFrom([]int{0, 0, 7, -3}).Draw(t, "offset")
		}
		r := sm.Row{Name: fmt.Sprintf("r%d", i), Offset: off, L: genLetters(t, s.Alpha, l), Strand: int8(rapid.SampledFrom([]int{1, 1, -1, 0}).Draw(t, "strand"))}
		if s.Quality() {
			r.Q = genQ(t, l)
		}
		s.Rows = append(s.Rows, r)
	}
	return s
}

func gen(t *rapid.T) algebraCase {
	c := algebraCase{Spec: genSpec(t, kinds, 40)}
	if c.Spec.IsLinear() && rapid.IntRange(0, 59).Draw(t, "very-long") == 31 {
		// a linear sequence of 64 Ki letters and more, odd and even (implementations that split long
		// sequences into blocks meet their block arithmetic and the unpaired middle letter here)
		n := rapid.SampledFrom([]int{65535, 65536, 65537, 131075}).Draw(t, "very-long-len")
		unit := genLetters(t, c.Spec.Alpha, 7)
		b := []byte(strings.Repeat(unit, n/7+1)[:n])
		pool := sm.PairedLetters(c.Spec.Alpha)
		b[n/2] = pool[0] // 'a': not its own complement
		r := &c.Spec.Rows[0]
		r.L = string(b)
		if c.Spec.Quality() {
			r.Q = make([]int, n)
			for i := range r.Q {
				r.Q[i] = i % 41
			}
		}
	}
	n := rapid.IntRange(1, 6).Draw(t, "nops")
	cloned := false
	for i := 0; i < n; i++ {
		pool := []string{"revcomp", "revcomp", "reverse", "clone", "set", "row-revcomp", "row-reverse", "append", "delete", "row-setoffset", "setoffset"}
		o := op{Kind: rapid.SampledFrom(pool).Draw(t, "op"), Row: rapid.IntRange(0, 6).Draw(t, "row"), Pos: rapid.IntRange(0, 60).Draw(t, "pos"),
			Letter: rapid.IntRange(0, 40).Draw(t, "letter"), Q: rapid.IntRange(0, 93).Draw(t, "q"), Off: rapid.IntRange(-5, 30).Draw(t, "off")}
		if o.Kind == "clone" {
			if cloned {
				o.Kind = "revcomp"
			}
			cloned = true
		}
		if cloned {
			o.Target = rapid.IntRange(0, 1).Draw(t, "target")
		}
		c.Ops = append(c.Ops, o)
	}
	return c
}

func fail(kind string, err error, ctx string) *vlib.Failure {
	return &vlib.Failure{Kind: kind, Msg: ctx + ": " + err.Error()}
}

func errKind(err error) string {
	s := err.Error()
	if i := strings.Index(s, ":"); i > 0 {
		return s[:i]
	}
	return "mismatch"
}

var full = sm.Opts{Offsets: true, Strand: true, Names: true, Quals: true}

func check(c algebraCase) *vlib.Failure {
	objs := make([]*sm.Object, 2)
	models := make([]*sm.Model, 2)
	var err error
	objs[0], err = sm.Build(c.Spec)
	if err != nil {
		return vlib.Failf("build", "%v", err)
	}
	models[0] = sm.NewModel(c.Spec)
	if e := sm.CompareRows(objs[0].Observe(), models[0], full); e != nil {
		return fail("construction-"+errKind(e), e, "freshly built container")
	}
	for oi, o := range c.Ops {
		tg := o.Target
		if objs[1] == nil {
			tg = 0
		}
		obj, mdl := objs[tg], models[tg]
		other := objs[1-tg]
		var before sm.Snapshot
		if other != nil {
			before = other.Observe()
		}
		ctx := fmt.Sprintf("op %d %s on %s (target %d)", oi, o.Kind, c.Spec.Kind, tg)
		algebra := false
		nrows := len(mdl.Rows)
		switch o.Kind {
		case "revcomp", "reverse":
			comp := o.Kind == "revcomp"
			algebra = true
			// twice restores: apply once, check against the model, apply again, check, and leave it applied once more
			// so that histories still compose (net effect: one application)
			if comp {
				obj.RevComp()
			} else {
				obj.Reverse()
			}
			mdl.RevComp(comp)
			opts := full
			if !comp {
				// the statement constrains Reverse only on letters (and the qualities that travel with them)
				opts = sm.Opts{Quals: true, Names: true}
			}
			if e := sm.CompareRows(obj.Observe(), mdl, opts); e != nil {
				return fail(o.Kind+"-"+errKind(e), e, ctx)
			}
			saved := mdl.Clone()
			if comp {
				obj.RevComp()
			} else {
				obj.Reverse()
			}
			mdl.RevComp(comp)
			twice := opts
			if !comp {
				// applied twice, Reverse is the identity: the letters are back where they were
				twice.Offsets = true
			}
			if e := sm.CompareRows(obj.Observe(), mdl, twice); e != nil {
				return fail(o.Kind+"-twice-"+errKind(e), e, ctx+" applied twice")
			}
			if comp {
				obj.RevComp()
			} else {
				obj.Reverse()
			}
			*mdl = *saved
			if !comp {
				// Reverse leaves offsets / strand unspecified: re-read them from the object so that
				// later steps start from the observed state
				resync(obj, mdl)
			}
		case "clone":
			if objs[1] != nil || tg != 0 {
				continue
			}
			snap := obj.Observe()
			objs[1] = obj.Clone()
			models[1] = mdl.Clone()
			if e := sm.SameSnapshot(snap, objs[1].Observe()); e != nil {
				return fail("clone-differs", e, ctx+": the clone is not an equal copy")
			}
			if e := sm.SameSnapshot(snap, obj.Observe()); e != nil {
				return fail("clone-changes-original", e, ctx)
			}
			continue
		case "set":
			if nrows == 0 {
				continue
			}
			r := o.Row % nrows
			lo, hi := obj.RowBounds(r)
			if hi <= lo {
				continue
			}
			pool := sm.PairedLetters(c.Spec.Alpha)
			ql := alphabet.QLetter{L: alphabet.Letter(pool[o.Letter%len(pool)]), Q: alphabet.Qphred(o.Q)}
			obj.Row(r).Set(lo+o.Pos%(hi-lo), ql)
			resync(obj, mdl)
		case "row-reverse":
			// Reverse of one row, twice: the letters of every row are where they were; once: that
			// row reads backwards (qualities with their letters), the other rows do not move
			if nrows == 0 || c.Spec.IsLinear() {
				continue
			}
			ri := o.Row % nrows
			before := obj.Observe()
			obj.Row(ri).Reverse()
			once := obj.Observe()
			obj.Row(ri).Reverse()
			twice := obj.Observe()
			for j := range before.Rows {
				if twice.Rows[j].L != before.Rows[j].L || fmt.Sprint(twice.Rows[j].Q) != fmt.Sprint(before.Rows[j].Q) {
					return vlib.Failf("row-reverse-twice", "%s: Reverse of row %d twice: row %d reads %q %v, was %q %v", ctx, ri, j, twice.Rows[j].L, twice.Rows[j].Q, before.Rows[j].L, before.Rows[j].Q)
				}
				want := before.Rows[j].L
				if j == ri {
					b := []byte(want)
					for x, y := 0, len(b)-1; x < y; x, y = x+1, y-1 {
						b[x], b[y] = b[y], b[x]
					}
					want = string(b)
				}
				if once.Rows[j].L != want {
					return vlib.Failf("row-reverse-letters", "%s: Reverse of row %d: row %d reads %q, want %q", ctx, ri, j, once.Rows[j].L, want)
				}
			}
			obj.Row(ri).Reverse() // net effect: reversed once
			resync(obj, mdl)
		case "row-revcomp":
			if nrows == 0 || c.Spec.IsLinear() {
				continue
			}
			// RevComp of one row: that row is reversed and complemented (qualities with their
			// letters), its strand negated; the other rows do not move
			ri := o.Row % nrows
			before := obj.Observe()
			obj.Row(ri).RevComp()
			after := obj.Observe()
			if len(after.Rows) != len(before.Rows) {
				return vlib.Failf("row-revcomp-rows", "%s: %d rows before, %d after", ctx, len(before.Rows), len(after.Rows))
			}
			for j := range before.Rows {
				want := before.Rows[j]
				if j == ri {
					n := len(want.L)
					b := make([]byte, n)
					var q []int
					for k := 0; k < n; k++ {
						b[k] = sm.Complement(c.Spec.Alpha, want.L[n-1-k])
						if want.Q != nil {
							q = append(q, want.Q[n-1-k])
						}
					}
					want.L, want.Strand = string(b), -want.Strand
					if want.Q != nil {
						want.Q = q
					}
				}
				got := after.Rows[j]
				if got.L != want.L || (want.Q != nil && fmt.Sprint(got.Q) != fmt.Sprint(want.Q)) {
					return vlib.Failf("row-revcomp-letters", "%s: RevComp of row %d: row %d reads %q %v, want %q %v", ctx, ri, j, got.L, got.Q, want.L, want.Q)
				}
				if got.Strand != want.Strand {
					return vlib.Failf("row-revcomp-strand", "%s: RevComp of row %d: row %d has strand %d, want %d", ctx, ri, j, got.Strand, want.Strand)
				}
			}
			resync(obj, mdl)
		case "append":
			if !(c.Spec.Aligned() || c.Spec.IsMulti()) || nrows == 0 {
				continue
			}
			pool := sm.PairedLetters(c.Spec.Alpha)
			col := make([]alphabet.QLetter, nrows)
			for i := range col {
				col[i] = alphabet.QLetter{L: alphabet.Letter(pool[(o.Letter+i)%len(pool)]), Q: alphabet.Qphred(o.Q)}
			}
			if e := obj.AppendColumns([][]alphabet.QLetter{col}); e != nil {
				return vlib.Failf("append-error", "%s: %v", ctx, e)
			}
			resync(obj, mdl)
		case "delete":
			if !(c.Spec.Aligned() || c.Spec.IsMulti()) || nrows < 2 {
				continue
			}
			obj.Delete(o.Row % nrows)
			resync(obj, mdl)
		case "setoffset":
			// the container is moved as a whole: the same call on a fresh clone has the same effect, no letter
			// changes, and the rows of a multi (the only container whose rows carry positions of their
			// own in the snapshot) all move by the same amount
			before := obj.Observe()
			probe := obj.Clone()
			if !obj.SetOffset(o.Off) {
				continue
			}
			probe.SetOffset(o.Off)
			after := obj.Observe()
			if e := sm.SameSnapshot(after, probe.Observe()); e != nil {
				return fail("setoffset-on-clone-differs", e, fmt.Sprintf("%s: SetOffset(%d) on a fresh clone and on the original give different containers", ctx, o.Off))
			}
			for j := range before.Rows {
				if j >= len(after.Rows) || after.Rows[j].L != before.Rows[j].L {
					return vlib.Failf("setoffset-letters", "%s: SetOffset(%d) changed the letters of row %d", ctx, o.Off, j)
				}
				if d, d0 := after.Rows[j].Offset-before.Rows[j].Offset, after.Rows[0].Offset-before.Rows[0].Offset; d != d0 {
					return vlib.Failf("setoffset-rows", "%s: SetOffset(%d) moved row 0 by %d and row %d by %d", ctx, o.Off, d0, j, d)
				}
			}
			resync(obj, mdl)
		case "row-setoffset":
			// (on a row of a column-stored alignment this moves the row's own annotation only: the
			// letters stay addressed through the alignment's coordinates)
			if nrows == 0 {
				continue
			}
			obj.Row(o.Row % nrows).SetOffset(o.Off)
			resync(obj, mdl)
		}
		_ = algebra
		if other != nil {
			if e := sm.SameSnapshot(before, other.Observe()); e != nil {
				which := "clone"
				if tg == 1 {
					which = "original"
				}
				return fail("clone-not-independent", e, fmt.Sprintf("%s: the %s changed although only the other copy was mutated", ctx, which))
			}
		}
	}
	return nil
}

// resync re-reads the model from the object after a mutation whose exact
// semantics is not part of this property (C07 owns those); C05 only needs the
// current state as the baseline for later algebra steps.
func resync(obj *sm.Object, mdl *sm.Model) {
	sn := obj.Observe()
	mdl.Rows = sn.Rows
	if mdl.IsLinear() || mdl.Aligned() {
		mdl.Strand = sn.Strand
	}
}

func classes(c algebraCase) []string {
	l := []string{"kind-" + c.Spec.Kind}
	if len(c.Spec.Rows) > 0 && len(c.Spec.Rows[0].L) >= 65535 {
		l = append(l, "linear-64Ki-letters-or-more")
	}
	maxLen, ragged, odd, lower := 0, false, false, false
	for i, r := range c.Spec.Rows {
		if len(r.L) > maxLen {
			maxLen = len(r.L)
		}
		if len(r.L)%2 == 1 {
			odd = true
		}
		if i > 0 && (r.Offset != c.Spec.Rows[0].Offset || len(r.L) != len(c.Spec.Rows[0].L)) {
			ragged = true
		}
		if strings.ContainsAny(r.L, "acgtumrwsykvhdbn") {
			lower = true
		}
	}
	cloneThenMut, hasRC := false, false
	cloned := false
	for _, o := range c.Ops {
		if o.Kind == "clone" {
			cloned = true
		} else if cloned && o.Kind != "clone" {
			cloneThenMut = true
		}
		if o.Kind == "revcomp" {
			hasRC = true
		}
	}
	moves := 0
	for _, o := range c.Ops {
		if o.Kind == "setoffset" && o.Off != 0 {
			moves++
		}
	}
	if moves >= 2 && c.Spec.IsMulti() {
		l = append(l, "multi-moved-more-than-once")
	}
	if ragged {
		l = append(l, "ragged-rows")
	}
	if odd {
		l = append(l, "odd-length")
	}
	if cloneThenMut {
		l = append(l, "clone-then-mutate")
	}
	if hasRC {
		l = append(l, "revcomp")
	}
	if ragged && hasRC && c.Spec.IsMulti() {
		l = append(l, "multi-ragged-revcomp")
	}
	if maxLen >= 3 && (odd || ragged || lower) && (hasRC || cloneThenMut) {
		l = append(l, vlib.NT)
	}
	return l
}

func TestAlgebra(t *testing.T) {
	vlib.Run(t, vlib.Prop[algebraCase]{Name: "revcomp-reverse-clone-histories", Checks: 5000, Thorough: 480000, Gen: gen, Check: check, Classes: classes,
		MinFrac: map[string]float64{"clone-then-mutate": 0.15, "multi-ragged-revcomp": 0.05, "odd-length": 0.4, "kind-aqseq": 0.05, "kind-multi": 0.05}})
}

// ---- empty containers (bounded-exhaustive) ------------------------------------------------
//
// Length 0 is part of "all lengths": a sequence or alignment with no letters
// (no columns, no rows, rows without letters) takes RevComp, Reverse and Clone
// like any other; nothing is left to swap, the strand is still negated by
// RevComp, and nothing panics. The history model above needs at least one
// column to observe the rows of a column-stored alignment, so this class is
// enumerated here.

type emptyCase struct {
	Kind   string   `json:"kind"`
	Alpha  string   `json:"alpha"`
	Strand int8     `json:"strand"`
	Ops    []string `json:"ops"`
}

var emptyKinds = []string{"lseq-emptied", "lqseq-emptied", "lseq", "lqseq", "aseq", "aqseq", "multi-no-rows", "multi-empty-rows", "multiq-empty-rows", "set-no-rows", "set-empty-rows"}
var emptyOps = [][]string{{"revcomp"}, {"reverse"}, {"clone"}, {"revcomp", "revcomp"}, {"reverse", "reverse"}, {"clone", "revcomp"}, {"revcomp", "clone"}, {"reverse", "revcomp"}}

type emptyObj interface {
	RevComp()
	Reverse()
}

func checkEmpty(c emptyCase) (f *vlib.Failure) {
	a := sm.Alpha(c.Alpha)
	defer func() {
		if r := recover(); r != nil {
			if msg, ok := r.(string); ok && strings.HasPrefix(msg, "clone of an emptied") {
				f = vlib.Failf("clone-not-independent", "%s over %s, ops %v: %s", c.Kind, c.Alpha, c.Ops, msg)
				return
			}
			f = vlib.Failf("panic-on-empty", "%s over %s, ops %v: %v", c.Kind, c.Alpha, c.Ops, r)
		}
	}()
	var obj emptyObj
	var strand func() seq.Strand
	var length func() int
	var clone func() emptyObj
	pl := sm.PairedLetters(c.Alpha)
	switch c.Kind {
	case "lseq-emptied", "lqseq-emptied":
		// a sequence that held letters and was cut back to none: length 0 with spare capacity. A clone
		// and the original then grow independently.
		fill := alphabet.Letters{alphabet.Letter(pl[0]), alphabet.Letter(pl[1]), alphabet.Letter(pl[0]), alphabet.Letter(pl[1]), alphabet.Letter(pl[0]), alphabet.Letter(pl[1])}
		x, y := alphabet.Letter(pl[0]), alphabet.Letter(pl[1])
		if c.Kind == "lseq-emptied" {
			s := linear.NewSeq("e", fill, a)
			s.Seq = s.Seq[:0]
			s.Strand = seq.Strand(c.Strand)
			obj, strand, length = s, func() seq.Strand { return s.Strand }, s.Len
			clone = func() emptyObj {
				cl := s.Clone().(*linear.Seq)
				s.AppendLetters(x, x, y)
				cl.AppendLetters(y, y, x)
				if got, got2 := s.Seq.String(), cl.Seq.String(); got != string([]byte{byte(x), byte(x), byte(y)}) || got2 != string([]byte{byte(y), byte(y), byte(x)}) {
					panic(fmt.Sprintf("clone of an emptied sequence is not independent: after appending %c%c%c to the original and %c%c%c to the clone they read %q and %q", x, x, y, y, y, x, got, got2))
				}
				s.Seq = s.Seq[:0]
				cl.Seq = cl.Seq[:0]
				return cl
			}
		} else {
			s := linear.NewQSeq("e", nil, a, alphabet.Sanger)
			for _, l := range fill {
				s.Seq = append(s.Seq, alphabet.QLetter{L: l, Q: 7})
			}
			s.Seq = s.Seq[:0]
			s.Strand = seq.Strand(c.Strand)
			obj, strand, length = s, func() seq.Strand { return s.Strand }, s.Len
			clone = func() emptyObj {
				cl := s.Clone().(*linear.QSeq)
				s.AppendQLetters(alphabet.QLetter{L: x, Q: 11}, alphabet.QLetter{L: y, Q: 12})
				cl.AppendQLetters(alphabet.QLetter{L: y, Q: 21}, alphabet.QLetter{L: x, Q: 22})
				if got, got2 := fmt.Sprint(s.Seq), fmt.Sprint(cl.Seq); got != fmt.Sprint(alphabet.QLetters{{L: x, Q: 11}, {L: y, Q: 12}}) || got2 != fmt.Sprint(alphabet.QLetters{{L: y, Q: 21}, {L: x, Q: 22}}) {
					panic(fmt.Sprintf("clone of an emptied quality sequence is not independent: after appending to both copies they read %v and %v", got, got2))
				}
				s.Seq = s.Seq[:0]
				cl.Seq = cl.Seq[:0]
				return cl
			}
		}
	case "lseq":
		s := linear.NewSeq("e", nil, a)
		s.Strand = seq.Strand(c.Strand)
		obj, strand, length = s, func() seq.Strand { return s.Strand }, s.Len
		clone = func() emptyObj { return s.Clone().(*linear.Seq) }
	case "lqseq":
		s := linear.NewQSeq("e", nil, a, alphabet.Sanger)
		s.Strand = seq.Strand(c.Strand)
		obj, strand, length = s, func() seq.Strand { return s.Strand }, s.Len
		clone = func() emptyObj { return s.Clone().(*linear.QSeq) }
	case "aseq":
		s, err := alignment.NewSeq("e", nil, nil, a, seq.DefaultConsensus)
		if err != nil {
			return vlib.Failf("construction", "alignment.NewSeq without columns: %v", err)
		}
		s.Strand = seq.Strand(c.Strand)
		obj, strand, length = s, func() seq.Strand { return s.Strand }, s.Len
		clone = func() emptyObj { return s.Clone().(*alignment.Seq) }
	case "aqseq":
		s, err := alignment.NewQSeq("e", nil, nil, a, alphabet.Sanger, seq.DefaultQConsensus)
		if err != nil {
			return vlib.Failf("construction", "alignment.NewQSeq without columns: %v", err)
		}
		s.Strand = seq.Strand(c.Strand)
		obj, strand, length = s, func() seq.Strand { return s.Strand }, s.Len
		clone = func() emptyObj { return s.Clone().(*alignment.QSeq) }
	case "multi-no-rows", "multi-empty-rows", "multiq-empty-rows":
		var rows []seq.Sequence
		if c.Kind == "multi-empty-rows" {
			rows = []seq.Sequence{linear.NewSeq("a", nil, a), linear.NewSeq("b", nil, a)}
		}
		if c.Kind == "multiq-empty-rows" {
			rows = []seq.Sequence{linear.NewQSeq("a", nil, a, alphabet.Sanger), linear.NewQSeq("b", nil, a, alphabet.Sanger)}
		}
		m, err := multi.NewMulti("e", rows, seq.DefaultConsensus)
		if err != nil {
			return vlib.Failf("construction", "multi.NewMulti: %v", err)
		}
		obj, length = m, m.Len
		clone = func() emptyObj { return m.Clone().(*multi.Multi) }
	default:
		s := multi.Set{}
		if c.Kind == "set-empty-rows" {
			s = multi.Set{linear.NewSeq("a", nil, a), linear.NewQSeq("b", nil, a, alphabet.Sanger)}
		}
		obj, length = s, s.Len
	}
	want := seq.Strand(c.Strand)
	for _, op := range c.Ops {
		switch op {
		case "revcomp":
			obj.RevComp()
			want = -want
		case "reverse":
			obj.Reverse()
			want = 0 // not asserted after a Reverse (the statement leaves the strand of a reversed sequence open)
			strand = nil
		case "clone":
			if clone != nil {
				cl := clone()
				cl.RevComp() // a mutation of the clone; the original's strand must not move
			}
		}
		// (a Multi or Set without rows has no span at all: the extent is taken over
		// the rows, so its Len is not asserted - only that nothing panics)
		if n := length(); n != 0 && c.Kind != "multi-no-rows" && c.Kind != "set-no-rows" {
			return vlib.Failf("empty-length", "%s over %s: Len() = %d after %v", c.Kind, c.Alpha, n, c.Ops)
		}
	}
	if strand != nil && strand() != want {
		return vlib.Failf("revcomp-strand", "empty %s over %s starting on strand %d: strand %d after %v, want %d", c.Kind, c.Alpha, c.Strand, strand(), c.Ops, want)
	}
	return nil
}

func TestEmpty(t *testing.T) {
	vlib.RunEnum(t, vlib.Enum[emptyCase]{Name: "empty-containers", DistinctByConstruction: true,
		Each: func(yield func(emptyCase) bool) {
			for _, k := range emptyKinds {
				for _, al := range compAlphas {
					for _, st := range []int8{1, -1, 0} {
						for _, ops := range emptyOps {
							if !yield(emptyCase{Kind: k, Alpha: al, Strand: st, Ops: ops}) {
								return
							}
						}
					}
				}
			}
		},
		Check:   checkEmpty,
		Classes: func(c emptyCase) []string { return []string{"empty-" + c.Kind, vlib.NT} }})
}

// ---- a row-stored alignment whose rows are the rows of a column-stored alignment that itself carries an offset ----
//
// The rows of an alignment.Seq / QSeq are seq.Sequence values and can be handed to multi.NewMulti. The
// row-stored alignment then mirrors them through their own Start/End/SetOffset. Letters are read from the
// column store directly (column-stored alignments index their columns from 0 whatever their offset, so the
// generic position-based observation does not apply here).

type viewCase struct {
	Alpha   string   `json:"alpha"`
	Quality bool     `json:"quality"`
	Cols    int      `json:"cols"`
	Rows    []sm.Row `json:"rows"`     // rows of the column-stored alignment: letters (all Cols long), qualities, own offset
	AOffset int      `json:"a_offset"` // offset of the column-stored alignment
	Linear  []sm.Row `json:"linear"`   // further ordinary rows
	Ops     []string `json:"ops"`      // revcomp / reverse
}

func checkViews(c viewCase) *vlib.Failure {
	alpha := sm.Alpha(c.Alpha)
	nr := len(c.Rows)
	var rows []seq.Sequence
	var raw func(r int) (string, []int)
	ids := make([]string, nr)
	for i := range ids {
		ids[i] = fmt.Sprintf("r%d", i)
	}
	if c.Quality {
		cols := make([][]alphabet.QLetter, c.Cols)
		for j := range cols {
			cols[j] = make([]alphabet.QLetter, nr)
			for i, r := range c.Rows {
				cols[j][i] = alphabet.QLetter{L: alphabet.Letter(r.L[j]), Q: alphabet.Qphred(r.Q[j])}
			}
		}
		a, err := alignment.NewQSeq("a", ids, cols, alpha, alphabet.Sanger, seq.DefaultQConsensus)
		if err != nil {
			return vlib.Failf("setup", "NewQSeq: %v", err)
		}
		a.SetOffset(c.AOffset)
		for i, r := range c.Rows {
			a.Row(i).SetOffset(r.Offset)
			rows = append(rows, a.Row(i))
		}
		raw = func(r int) (string, []int) {
			var b []byte
			var q []int
			for _, col := range a.Seq {
				b = append(b, byte(col[r].L))
				q = append(q, int(col[r].Q))
			}
			return string(b), q
		}
	} else {
		cols := make([][]alphabet.Letter, c.Cols)
		for j := range cols {
			cols[j] = make([]alphabet.Letter, nr)
			for i, r := range c.Rows {
				cols[j][i] = alphabet.Letter(r.L[j])
			}
		}
		a, err := alignment.NewSeq("a", ids, cols, alpha, seq.DefaultConsensus)
		if err != nil {
			return vlib.Failf("setup", "NewSeq: %v", err)
		}
		a.SetOffset(c.AOffset)
		for i, r := range c.Rows {
			a.Row(i).SetOffset(r.Offset)
			rows = append(rows, a.Row(i))
		}
		raw = func(r int) (string, []int) {
			var b []byte
			for _, col := range a.Seq {
				b = append(b, byte(col[r]))
			}
			return string(b), nil
		}
	}
	var lins []*linear.Seq
	for i, r := range c.Linear {
		l := linear.NewSeq(fmt.Sprintf("l%d", i), alphabet.BytesToLetters([]byte(r.L)), alpha)
		l.SetOffset(r.Offset)
		lins = append(lins, l)
		rows = append(rows, l)
	}
	m, err := multi.NewMulti("m", rows, seq.DefaultConsensus)
	if err != nil {
		return vlib.Failf("setup", "NewMulti: %v", err)
	}
	type span struct{ s, e int }
	spans := func() []span {
		out := make([]span, len(rows))
		for i, r := range rows {
			out[i] = span{r.Start(), r.End()}
		}
		return out
	}
	letters := func() ([]string, [][]int) {
		var ls []string
		var qs [][]int
		for i := 0; i < nr; i++ {
			l, q := raw(i)
			ls, qs = append(ls, l), append(qs, q)
		}
		for _, l := range lins {
			ls, qs = append(ls, l.Seq.String()), append(qs, nil)
		}
		return ls, qs
	}
	desc := fmt.Sprintf("multi over the %d rows of a column-stored alignment (quality=%v, %d columns, offset %d) and %d ordinary rows over %s", nr, c.Quality, c.Cols, c.AOffset, len(lins), c.Alpha)
	for oi, o := range c.Ops {
		before := spans()
		bl, bq := letters()
		lo, hi := m.Start(), m.End()
		for i, sp := range before {
			if sp.e-sp.s != rows[i].Len() {
				return vlib.Failf("view-coordinates", "%s: row %d reports [%d,%d) and Len() %d", desc, i, sp.s, sp.e, rows[i].Len())
			}
		}
		apply := m.RevComp
		if o == "reverse" {
			apply = m.Reverse
		}
		apply()
		if o == "revcomp" {
			// every row mirrored about the span; the span itself does not move
			for i, sp := range spans() {
				if want := (span{lo + hi - before[i].e, lo + hi - before[i].s}); sp != want {
					return vlib.Failf("view-revcomp-coordinates", "%s: op %d: row %d covers [%d,%d) after RevComp, its mirror image about [%d,%d) is [%d,%d) (it covered [%d,%d))", desc, oi, i, sp.s, sp.e, lo, hi, want.s, want.e, before[i].s, before[i].e)
				}
			}
			if m.Start() != lo || m.End() != hi {
				return vlib.Failf("view-revcomp-coordinates", "%s: op %d: RevComp moved the span from [%d,%d) to [%d,%d)", desc, oi, lo, hi, m.Start(), m.End())
			}
			al, aq := letters()
			for i := range bl {
				n := len(bl[i])
				w := make([]byte, n)
				var wq []int
				for k := 0; k < n; k++ {
					w[k] = sm.Complement(c.Alpha, bl[i][n-1-k])
					if bq[i] != nil {
						wq = append(wq, bq[i][n-1-k])
					}
				}
				if al[i] != string(w) || fmt.Sprint(aq[i]) != fmt.Sprint(wq) {
					return vlib.Failf("view-revcomp-letters", "%s: op %d: row %d reads %q %v after RevComp, want %q %v", desc, oi, i, al[i], aq[i], string(w), wq)
				}
			}
		}
		apply()
		// twice: letters, qualities and coordinates are back
		for i, sp := range spans() {
			if sp != before[i] {
				return vlib.Failf("view-twice-coordinates", "%s: op %d: row %d covers [%d,%d) after %s twice, it covered [%d,%d)", desc, oi, i, sp.s, sp.e, o, before[i].s, before[i].e)
			}
		}
		al, aq := letters()
		for i := range bl {
			if al[i] != bl[i] || fmt.Sprint(aq[i]) != fmt.Sprint(bq[i]) {
				return vlib.Failf("view-twice-letters", "%s: op %d: row %d reads %q %v after %s twice, it read %q %v", desc, oi, i, al[i], aq[i], o, bl[i], bq[i])
			}
		}
		apply() // net effect: applied once
	}
	// Clone is deep here too: a clone of the row-stored alignment does not write through to the column
	// store its rows were views of, whatever is done to it
	if nr > 0 && c.Cols > 0 {
		bl, bq := letters()
		before := spans()
		cl := m.Clone().(*multi.Multi)
		cl.RevComp()
		if cl.Rows() > 0 && cl.Row(0).Len() > 0 {
			r0 := cl.Row(0)
			pl := sm.PairedLetters(c.Alpha)
			r0.Set(r0.Start(), alphabet.QLetter{L: alphabet.Letter(pl[len(pl)-1]), Q: 1})
			r0.Set(r0.End()-1, alphabet.QLetter{L: alphabet.Letter(pl[0]), Q: 2})
		}
		al, aq := letters()
		for i := range bl {
			if al[i] != bl[i] || fmt.Sprint(aq[i]) != fmt.Sprint(bq[i]) {
				return vlib.Failf("clone-not-independent", "%s: after RevComp and Set on a clone, row %d of the original reads %q %v, it read %q %v", desc, i, al[i], aq[i], bl[i], bq[i])
			}
		}
		for i, sp := range spans() {
			if sp != before[i] {
				return vlib.Failf("clone-not-independent", "%s: after RevComp on a clone, row %d of the original covers [%d,%d), it covered [%d,%d)", desc, i, sp.s, sp.e, before[i].s, before[i].e)
			}
		}
	}
	return nil
}

func TestViews(t *testing.T) {
	vlib.Run(t, vlib.Prop[viewCase]{Name: "multi-over-rows-of-an-offset-alignment", Checks: 1500, Thorough: 60000,
		Gen: func(t *rapid.T) viewCase {
			c := viewCase{Alpha: rapid.SampledFrom(compAlphas).Draw(t, "alpha"), Quality: rapid.Bool().Draw(t, "quality"), Cols: rapid.IntRange(1, 8).Draw(t, "cols"),
				AOffset: rapid.IntRange(-5, 9).Draw(t, "a-offset")}
			pool := sm.PairedLetters(c.Alpha)
			genRow := func(n int, label string) sm.Row {
				b := make([]byte, n)
				r := sm.Row{Offset: rapid.IntRange(-4, 12).Draw(t, label+"-offset")}
				for k := range b {
					b[k] = pool[rapid.IntRange(0, len(pool)-1).Draw(t, label+"-l")]
					r.Q = append(r.Q, rapid.IntRange(0, 60).Draw(t, label+"-q"))
				}
				r.L = string(b)
				return r
			}
			for i, n := 0, rapid.IntRange(1, 4).Draw(t, "rows"); i < n; i++ {
				c.Rows = append(c.Rows, genRow(c.Cols, "row"))
			}
			if rapid.IntRange(0, 2).Draw(t, "same-offsets") == 0 {
				// the rows' own offsets equal the alignment's
				for i := range c.Rows {
					c.Rows[i].Offset = c.AOffset
				}
			}
			for i, n := 0, rapid.IntRange(0, 2).Draw(t, "linear-rows"); i < n; i++ {
				c.Linear = append(c.Linear, genRow(rapid.IntRange(0, 10).Draw(t, "linear-len"), "lin"))
			}
			for i, n := 0, rapid.IntRange(1, 3).Draw(t, "nops"); i < n; i++ {
				c.Ops = append(c.Ops, rapid.SampledFrom([]string{"revcomp", "revcomp", "reverse"}).Draw(t, "op"))
			}
			return c
		},
		Check: checkViews,
		Classes: func(c viewCase) []string {
			var l []string
			if c.AOffset != 0 {
				l = append(l, "alignment-offset-non-zero")
			}
			ragged := false
			for _, r := range c.Rows {
				if r.Offset != c.Rows[0].Offset {
					ragged = true
				}
			}
			if ragged || len(c.Linear) > 0 {
				l = append(l, "rows-with-different-offsets")
			}
			if c.Cols >= 2 && (ragged || len(c.Linear) > 0) {
				l = append(l, vlib.NT)
			}
			return l
		}})
}

// ---- a column-stored alignment put together as a plain struct value (columns, no per-row annotations) ----

type literalCase struct {
	Alpha   string   `json:"alpha"`
	Quality bool     `json:"quality"`
	Rows    []string `json:"rows"` // equal lengths
	Q       [][]int  `json:"q"`
	Strand  int8     `json:"strand"`
}

func checkLiteral(c literalCase) (f *vlib.Failure) {
	defer func() {
		if r := recover(); r != nil {
			f = vlib.Failf("panic", "alignment built as a struct value (%d rows, quality=%v) over %s: %v", len(c.Rows), c.Quality, c.Alpha, r)
		}
	}()
	alpha := sm.Alpha(c.Alpha)
	n := len(c.Rows[0])
	var revcomp func()
	var read func() ([]string, [][]int)
	var strand func() seq.Strand
	if c.Quality {
		a := &alignment.QSeq{Annotation: seq.Annotation{ID: "a", Alpha: alpha, Strand: seq.Strand(c.Strand)}, ColumnConsense: seq.DefaultQConsensus, Threshold: 2, QFilter: seq.AmbigFilter, Encode: alphabet.Sanger}
		for j := 0; j < n; j++ {
			col := make(alphabet.QLetters, len(c.Rows))
			for i := range c.Rows {
				col[i] = alphabet.QLetter{L: alphabet.Letter(c.Rows[i][j]), Q: alphabet.Qphred(c.Q[i][j])}
			}
			a.Seq = append(a.Seq, col)
		}
		revcomp, strand = a.RevComp, func() seq.Strand { return a.Strand }
		read = func() ([]string, [][]int) {
			ls, qs := make([]string, len(c.Rows)), make([][]int, len(c.Rows))
			for i := range c.Rows {
				var b []byte
				for _, col := range a.Seq {
					b = append(b, byte(col[i].L))
					qs[i] = append(qs[i], int(col[i].Q))
				}
				ls[i] = string(b)
			}
			return ls, qs
		}
	} else {
		a := &alignment.Seq{Annotation: seq.Annotation{ID: "a", Alpha: alpha, Strand: seq.Strand(c.Strand)}, ColumnConsense: seq.DefaultConsensus}
		for j := 0; j < n; j++ {
			col := make(alphabet.Letters, len(c.Rows))
			for i := range c.Rows {
				col[i] = alphabet.Letter(c.Rows[i][j])
			}
			a.Seq = append(a.Seq, col)
		}
		revcomp, strand = a.RevComp, func() seq.Strand { return a.Strand }
		read = func() ([]string, [][]int) {
			ls := make([]string, len(c.Rows))
			for i := range c.Rows {
				var b []byte
				for _, col := range a.Seq {
					b = append(b, byte(col[i]))
				}
				ls[i] = string(b)
			}
			return ls, make([][]int, len(c.Rows))
		}
	}
	bl, bq := read()
	revcomp()
	al, aq := read()
	for i := range bl {
		w := make([]byte, n)
		var wq []int
		for k := 0; k < n; k++ {
			w[k] = sm.Complement(c.Alpha, bl[i][n-1-k])
			if bq[i] != nil {
				wq = append(wq, bq[i][n-1-k])
			}
		}
		if al[i] != string(w) || fmt.Sprint(aq[i]) != fmt.Sprint(wq) {
			return vlib.Failf("revcomp-letters", "alignment built as a struct value (%d rows x %d columns, quality=%v) over %s: row %d reads %q %v after RevComp, want %q %v", len(c.Rows), n, c.Quality, c.Alpha, i, al[i], aq[i], string(w), wq)
		}
	}
	if strand() != -seq.Strand(c.Strand) {
		return vlib.Failf("revcomp-strand", "alignment built as a struct value: strand %d after RevComp of a strand-%d alignment", strand(), c.Strand)
	}
	revcomp()
	al, aq = read()
	for i := range bl {
		if al[i] != bl[i] || fmt.Sprint(aq[i]) != fmt.Sprint(bq[i]) {
			return vlib.Failf("revcomp-twice-letters", "alignment built as a struct value: row %d reads %q %v after RevComp twice, it read %q %v", i, al[i], aq[i], bl[i], bq[i])
		}
	}
	return nil
}

func TestLiteral(t *testing.T) {
	vlib.Run(t, vlib.Prop[literalCase]{Name: "column-store-built-as-a-struct-value", Checks: 600, Thorough: 30000,
		Gen: func(t *rapid.T) literalCase {
			c := literalCase{Alpha: rapid.SampledFrom(compAlphas).Draw(t, "alpha"), Quality: rapid.Bool().Draw(t, "quality"), Strand: int8(rapid.IntRange(-1, 1).Draw(t, "strand"))}
			pool := sm.PairedLetters(c.Alpha)
			n := rapid.IntRange(1, 9).Draw(t, "cols")
			for i, r := 0, rapid.IntRange(1, 4).Draw(t, "rows"); i < r; i++ {
				b := make([]byte, n)
				q := make([]int, n)
				for k := range b {
					b[k] = pool[rapid.IntRange(0, len(pool)-1).Draw(t, "l")]
					q[k] = rapid.IntRange(0, 60).Draw(t, "q")
				}
				c.Rows, c.Q = append(c.Rows, string(b)), append(c.Q, q)
			}
			return c
		},
		Check:   checkLiteral,
		Classes: func(c literalCase) []string { return []string{fmt.Sprintf("rows=%d", len(c.Rows)), vlib.NT} }})
}
