// C05 — reverse-complement, reverse and clone obey their algebra on all sequence types.
package c05

import (
	"fmt"
	"os"
	"strings"
	"testing"

	"github.com/biogo/biogo/alphabet"
	"github.com/biogo/biogo/seq"
	"github.com/biogo/biogo/seq/alignment"
	"github.com/biogo/biogo/seq/linear"
	"github.com/biogo/biogo/seq/multi"
	"pgregory.net/rapid"

	sm "verif/internal/seqmodel"
	"verif/internal/vlib"
)

func TestMain(m *testing.M) { vlib.Main(m, "C05"); os.Exit(0) }

// op kinds:
//
//	revcomp, reverse                 applied to target (0 = original, 1 = clone)
//	clone                            B = A.Clone() (only once)
//	set                              Row(r).Set(pos, letter)           (mutation used for independence)
//	row-revcomp                      Row(r).RevComp()
//	append                           AppendColumns of one column        (aligned kinds)
//	delete                           Delete(r)                          (alignment, multi; rows >= 2)
//	row-setoffset                    Row(r).SetOffset(o)                (multi rows / linear)
type op struct {
	Kind   string `json:"kind"`
	Target int    `json:"target"`
	Row    int    `json:"row"`
	Pos    int    `json:"pos"`
	Letter int    `json:"letter"`
	Q      int    `json:"q"`
	Off    int    `json:"off"`
}

type algebraCase struct {
	Spec sm.Spec `json:"spec"`
	Ops  []op    `json:"ops"`
}

var compAlphas = []string{"DNA", "DNAgapped", "DNAredundant", "RNA", "RNAgapped", "RNAredundant", "PairedProtein"}
var kinds = []string{"lseq", "lqseq", "aseq", "aqseq", "multi", "multiq", "set", "setq"}

func genLetters(t *rapid.T, alpha string, n int) string {
	pool := sm.PairedLetters(alpha)
	b := make([]byte, n)
	for i := range b {
		b[i] = pool[rapid.IntRange(0, len(pool)-1).Draw(t, "l")]
	}
	return string(b)
}

func genQ(t *rapid.T, n int) []int {
	q := make([]int, n)
	for i := range q {
		q[i] = rapid.IntRange(0, 93).Draw(t, "q")
	}
	return q
}

func genSpec(t *rapid.T, kindPool []string, maxLen int) sm.Spec {
	s := sm.Spec{Kind: rapid.SampledFrom(kindPool).Draw(t, "kind"), Alpha: rapid.SampledFrom(compAlphas).Draw(t, "alpha")}
	nrows := 1
	if !s.IsLinear() {
		nrows = rapid.IntRange(1, 5).Draw(t, "nrows")
	}
	minLen := 0
	if s.Aligned() {
		minLen = 1 // Rows() of a column-stored alignment is defined from its first column
	}
	n := rapid.IntRange(minLen, maxLen).Draw(t, "len")
	for i := 0; i < nrows; i++ {
		l := n
		off := 0
		if s.IsMulti() || s.IsSet() {
			switch rapid.IntRange(0, 3).Draw(t, "ragged") {
			case 0: // flush
			default:
				l = rapid.IntRange(0, maxLen).Draw(t, "rowlen")
			}
			off = rapid.SampledFrom([]int{0, 0, 0, 1, 3, 5, 12, -4, 40}).Draw(t, "offset")
		}
		if s.IsLinear() {
			off = rapid.SampledFrom([]int{0, 0, 7, -3}).Draw(t, "offset")
		}
		r := sm.Row{Name: fmt.Sprintf("r%d", i), Offset: off, L: genLetters(t, s.Alpha, l), Strand: int8(rapid.SampledFrom([]int{1, 1, -1, 0}).Draw(t, "strand"))}
		if s.Quality() {
			r.Q = genQ(t, l)
		}
		s.Rows = append(s.Rows, r)
	}
	return s
}

func gen(t *rapid.T) algebraCase {
	c := algebraCase{Spec: genSpec(t, kinds, 40)}
	if c.Spec.IsLinear() && rapid.IntRange(0, 59).Draw(t, "very-long") == 31 {
		// a linear sequence of 64 Ki letters and more, odd and even (implementations that split long
		// sequences into blocks meet their block arithmetic and the unpaired middle letter here)
		n := rapid.SampledFrom([]int{65535, 65536, 65537, 131075}).Draw(t, "very-long-len")
		unit := genLetters(t, c.Spec.Alpha, 7)
		b := []byte(strings.Repeat(unit, n/7+1)[:n])
		pool := sm.PairedLetters(c.Spec.Alpha)
		b[n/2] = pool[0] // 'a': not its own complement
		r := &c.Spec.Rows[0]
		r.L = string(b)
		if c.Spec.Quality() {
			r.Q = make([]int, n)
			for i := range r.Q {
				r.Q[i] = i % 41
			}
		}
	}
	n := rapid.IntRange(1, 6).Draw(t, "nops")
	cloned := false
	for i := 0; i < n; i++ {
		pool := []string{"revcomp", "revcomp", "reverse", "clone", "set", "row-revcomp", "row-reverse", "append", "delete", "row-setoffset"}
		o := op{Kind: rapid.SampledFrom(pool).Draw(t, "op"), Row: rapid.IntRange(0, 6).Draw(t, "row"), Pos: rapid.IntRange(0, 60).Draw(t, "pos"),
			Letter: rapid.IntRange(0, 40).Draw(t, "letter"), Q: rapid.IntRange(0, 93).Draw(t, "q"), Off: rapid.IntRange(-5, 30).Draw(t, "off")}
		if o.Kind == "clone" {
			if cloned {
				o.Kind = "revcomp"
			}
			cloned = true
		}
		if cloned {
			o.Target = rapid.IntRange(0, 1).Draw(t, "target")
		}
		c.Ops = append(c.Ops, o)
	}
	return c
}

func fail(kind string, err error, ctx string) *vlib.Failure {
	return &vlib.Failure{Kind: kind, Msg: ctx + ": " + err.Error()}
}

func errKind(err error) string {
	s := err.Error()
	if i := strings.Index(s, ":"); i > 0 {
		return s[:i]
	}
	return "mismatch"
}

var full = sm.Opts{Offsets: true, Strand: true, Names: true, Quals: true}

func check(c algebraCase) *vlib.Failure {
	objs := make([]*sm.Object, 2)
	models := make([]*sm.Model, 2)
	var err error
	objs[0], err = sm.Build(c.Spec)
	if err != nil {
		return vlib.Failf("build", "%v", err)
	}
	models[0] = sm.NewModel(c.Spec)
	if e := sm.CompareRows(objs[0].Observe(), models[0], full); e != nil {
		return fail("construction-"+errKind(e), e, "freshly built container")
	}
	for oi, o := range c.Ops {
		tg := o.Target
		if objs[1] == nil {
			tg = 0
		}
		obj, mdl := objs[tg], models[tg]
		other := objs[1-tg]
		var before sm.Snapshot
		if other != nil {
			before = other.Observe()
		}
		ctx := fmt.Sprintf("op %d %s on %s (target %d)", oi, o.Kind, c.Spec.Kind, tg)
		algebra := false
		nrows := len(mdl.Rows)
		switch o.Kind {
		case "revcomp", "reverse":
			comp := o.Kind == "revcomp"
			algebra = true
			// twice restores: apply once, check against the model, apply again, check, and leave it applied once more
			// so that histories still compose (net effect: one application)
			if comp {
				obj.RevComp()
			} else {
				obj.Reverse()
			}
			mdl.RevComp(comp)
			opts := full
			if !comp {
				// the statement constrains Reverse only on letters (and the qualities that travel with them)
				opts = sm.Opts{Quals: true, Names: true}
			}
			if e := sm.CompareRows(obj.Observe(), mdl, opts); e != nil {
				return fail(o.Kind+"-"+errKind(e), e, ctx)
			}
			saved := mdl.Clone()
			if comp {
				obj.RevComp()
			} else {
				obj.Reverse()
			}
			mdl.RevComp(comp)
			twice := opts
			if !comp {
				// applied twice, Reverse is the identity: the letters are back where they were
				twice.Offsets = true
			}
			if e := sm.CompareRows(obj.Observe(), mdl, twice); e != nil {
				return fail(o.Kind+"-twice-"+errKind(e), e, ctx+" applied twice")
			}
			if comp {
				obj.RevComp()
			} else {
				obj.Reverse()
			}
			*mdl = *saved
			if !comp {
				// Reverse leaves offsets / strand unspecified: re-read them from the object so that
				// later steps start from the observed state
				resync(obj, mdl)
			}
		case "clone":
			if objs[1] != nil || tg != 0 {
				continue
			}
			snap := obj.Observe()
			objs[1] = obj.Clone()
			models[1] = mdl.Clone()
			if e := sm.SameSnapshot(snap, objs[1].Observe()); e != nil {
				return fail("clone-differs", e, ctx+": the clone is not an equal copy")
			}
			if e := sm.SameSnapshot(snap, obj.Observe()); e != nil {
				return fail("clone-changes-original", e, ctx)
			}
			continue
		case "set":
			if nrows == 0 {
				continue
			}
			r := o.Row % nrows
			lo, hi := obj.RowBounds(r)
			if hi <= lo {
				continue
			}
			pool := sm.PairedLetters(c.Spec.Alpha)
			ql := alphabet.QLetter{L: alphabet.Letter(pool[o.Letter%len(pool)]), Q: alphabet.Qphred(o.Q)}
			obj.Row(r).Set(lo+o.Pos%(hi-lo), ql)
			resync(obj, mdl)
		case "row-reverse":
			// Reverse of one row, twice: the letters of every row are where they were; once: that
			// row reads backwards (qualities with their letters), the other rows do not move
			if nrows == 0 || c.Spec.IsLinear() {
				continue
			}
			ri := o.Row % nrows
			before := obj.Observe()
			obj.Row(ri).Reverse()
			once := obj.Observe()
			obj.Row(ri).Reverse()
			twice := obj.Observe()
			for j := range before.Rows {
				if twice.Rows[j].L != before.Rows[j].L || fmt.Sprint(twice.Rows[j].Q) != fmt.Sprint(before.Rows[j].Q) {
					return vlib.Failf("row-reverse-twice", "%s: Reverse of row %d twice: row %d reads %q %v, was %q %v", ctx, ri, j, twice.Rows[j].L, twice.Rows[j].Q, before.Rows[j].L, before.Rows[j].Q)
				}
				want := before.Rows[j].L
				if j == ri {
					b := []byte(want)
					for x, y := 0, len(b)-1; x < y; x, y = x+1, y-1 {
						b[x], b[y] = b[y], b[x]
					}
					want = string(b)
				}
				if once.Rows[j].L != want {
					return vlib.Failf("row-reverse-letters", "%s: Reverse of row %d: row %d reads %q, want %q", ctx, ri, j, once.Rows[j].L, want)
				}
			}
			obj.Row(ri).Reverse() // net effect: reversed once
			resync(obj, mdl)
		case "row-revcomp":
			if nrows == 0 || c.Spec.IsLinear() {
				continue
			}
			// RevComp of one row: that row is reversed and complemented (qualities with their
			// letters), its strand negated; the other rows do not move
			ri := o.Row % nrows
			before := obj.Observe()
			obj.Row(ri).RevComp()
			after := obj.Observe()
			if len(after.Rows) != len(before.Rows) {
				return vlib.Failf("row-revcomp-rows", "%s: %d rows before, %d after", ctx, len(before.Rows), len(after.Rows))
			}
			for j := range before.Rows {
				want := before.Rows[j]
				if j == ri {
					n := len(want.L)
					b := make([]byte, n)
					var q []int
					for k := 0; k < n; k++ {
						b[k] = sm.Complement(c.Spec.Alpha, want.L[n-1-k])
						if want.Q != nil {
							q = append(q, want.Q[n-1-k])
						}
					}
					want.L, want.Strand = string(b), -want.Strand
					if want.Q != nil {
						want.Q = q
					}
				}
				got := after.Rows[j]
				if got.L != want.L || (want.Q != nil && fmt.Sprint(got.Q) != fmt.Sprint(want.Q)) {
					return vlib.Failf("row-revcomp-letters", "%s: RevComp of row %d: row %d reads %q %v, want %q %v", ctx, ri, j, got.L, got.Q, want.L, want.Q)
				}
				if got.Strand != want.Strand {
					return vlib.Failf("row-revcomp-strand", "%s: RevComp of row %d: row %d has strand %d, want %d", ctx, ri, j, got.Strand, want.Strand)
				}
			}
			resync(obj, mdl)
		case "append":
			if !(c.Spec.Aligned() || c.Spec.IsMulti()) || nrows == 0 {
				continue
			}
			pool := sm.PairedLetters(c.Spec.Alpha)
			col := make([]alphabet.QLetter, nrows)
			for i := range col {
				col[i] = alphabet.QLetter{L: alphabet.Letter(pool[(o.Letter+i)%len(pool)]), Q: alphabet.Qphred(o.Q)}
			}
			if e := obj.AppendColumns([][]alphabet.QLetter{col}); e != nil {
				return vlib.Failf("append-error", "%s: %v", ctx, e)
			}
			resync(obj, mdl)
		case "delete":
			if !(c.Spec.Aligned() || c.Spec.IsMulti()) || nrows < 2 {
				continue
			}
			obj.Delete(o.Row % nrows)
			resync(obj, mdl)
		case "row-setoffset":
			// (on a row of a column-stored alignment this moves the row's own annotation only: the
			// letters stay addressed through the alignment's coordinates)
			if nrows == 0 {
				continue
			}
			obj.Row(o.Row % nrows).SetOffset(o.Off)
			resync(obj, mdl)
		}
		_ = algebra
		if other != nil {
			if e := sm.SameSnapshot(before, other.Observe()); e != nil {
				which := "clone"
				if tg == 1 {
					which = "original"
				}
				return fail("clone-not-independent", e, fmt.Sprintf("%s: the %s changed although only the other copy was mutated", ctx, which))
			}
		}
	}
	return nil
}

// resync re-reads the model from the object after a mutation whose exact
// semantics is not part of this property (C07 owns those); C05 only needs the
// current state as the baseline for later algebra steps.
func resync(obj *sm.Object, mdl *sm.Model) {
	sn := obj.Observe()
	mdl.Rows = sn.Rows
	if mdl.IsLinear() || mdl.Aligned() {
		mdl.Strand = sn.Strand
	}
}

func classes(c algebraCase) []string {
	l := []string{"kind-" + c.Spec.Kind}
	if len(c.Spec.Rows) > 0 && len(c.Spec.Rows[0].L) >= 65535 {
		l = append(l, "linear-64Ki-letters-or-more")
	}
	maxLen, ragged, odd, lower := 0, false, false, false
	for i, r := range c.Spec.Rows {
		if len(r.L) > maxLen {
			maxLen = len(r.L)
		}
		if len(r.L)%2 == 1 {
			odd = true
		}
		if i > 0 && (r.Offset != c.Spec.Rows[0].Offset || len(r.L) != len(c.Spec.Rows[0].L)) {
			ragged = true
		}
		if strings.ContainsAny(r.L, "acgtumrwsykvhdbn") {
			lower = true
		}
	}
	cloneThenMut, hasRC := false, false
	cloned := false
	for _, o := range c.Ops {
		if o.Kind == "clone" {
			cloned = true
		} else if cloned && o.Kind != "clone" {
			cloneThenMut = true
		}
		if o.Kind == "revcomp" {
			hasRC = true
		}
	}
	if ragged {
		l = append(l, "ragged-rows")
	}
	if odd {
		l = append(l, "odd-length")
	}
	if cloneThenMut {
		l = append(l, "clone-then-mutate")
	}
	if hasRC {
		l = append(l, "revcomp")
	}
	if ragged && hasRC && c.Spec.IsMulti() {
		l = append(l, "multi-ragged-revcomp")
	}
	if maxLen >= 3 && (odd || ragged || lower) && (hasRC || cloneThenMut) {
		l = append(l, vlib.NT)
	}
	return l
}

func TestAlgebra(t *testing.T) {
	vlib.Run(t, vlib.Prop[algebraCase]{Name: "revcomp-reverse-clone-histories", Checks: 5000, Thorough: 480000, Gen: gen, Check: check, Classes: classes,
		MinFrac: map[string]float64{"clone-then-mutate": 0.15, "multi-ragged-revcomp": 0.05, "odd-length": 0.4, "kind-aqseq": 0.05, "kind-multi": 0.05}})
}

// ---- empty containers (bounded-exhaustive) ------------------------------------------------
//
// Length 0 is part of "all lengths": a sequence or alignment with no letters
// (no columns, no rows, rows without letters) takes RevComp, Reverse and Clone
// like any other; nothing is left to swap, the strand is still negated by
// RevComp, and nothing panics. The history model above needs at least one
// column to observe the rows of a column-stored alignment, so this class is
// enumerated here.

type emptyCase struct {
	Kind   string   `json:"kind"`
	Alpha  string   `json:"alpha"`
	Strand int8     `json:"strand"`
	Ops    []string `json:"ops"`
}

var emptyKinds = []string{"lseq", "lqseq", "aseq", "aqseq", "multi-no-rows", "multi-empty-rows", "multiq-empty-rows", "set-no-rows", "set-empty-rows"}
var emptyOps = [][]string{{"revcomp"}, {"reverse"}, {"clone"}, {"revcomp", "revcomp"}, {"reverse", "reverse"}, {"clone", "revcomp"}, {"revcomp", "clone"}, {"reverse", "revcomp"}}

type emptyObj interface {
	RevComp()
	Reverse()
}

func checkEmpty(c emptyCase) (f *vlib.Failure) {
	a := sm.Alpha(c.Alpha)
	defer func() {
		if r := recover(); r != nil {
			f = vlib.Failf("panic-on-empty", "%s over %s, ops %v: %v", c.Kind, c.Alpha, c.Ops, r)
		}
	}()
	var obj emptyObj
	var strand func() seq.Strand
	var length func() int
	var clone func() emptyObj
	switch c.Kind {
	case "lseq":
		s := linear.NewSeq("e", nil, a)
		s.Strand = seq.Strand(c.Strand)
		obj, strand, length = s, func() seq.Strand { return s.Strand }, s.Len
		clone = func() emptyObj { return s.Clone().(*linear.Seq) }
	case "lqseq":
		s := linear.NewQSeq("e", nil, a, alphabet.Sanger)
		s.Strand = seq.Strand(c.Strand)
		obj, strand, length = s, func() seq.Strand { return s.Strand }, s.Len
		clone = func() emptyObj { return s.Clone().(*linear.QSeq) }
	case "aseq":
		s, err := alignment.NewSeq("e", nil, nil, a, seq.DefaultConsensus)
		if err != nil {
			return vlib.Failf("construction", "alignment.NewSeq without columns: %v", err)
		}
		s.Strand = seq.Strand(c.Strand)
		obj, strand, length = s, func() seq.Strand { return s.Strand }, s.Len
		clone = func() emptyObj { return s.Clone().(*alignment.Seq) }
	case "aqseq":
		s, err := alignment.NewQSeq("e", nil, nil, a, alphabet.Sanger, seq.DefaultQConsensus)
		if err != nil {
			return vlib.Failf("construction", "alignment.NewQSeq without columns: %v", err)
		}
		s.Strand = seq.Strand(c.Strand)
		obj, strand, length = s, func() seq.Strand { return s.Strand }, s.Len
		clone = func() emptyObj { return s.Clone().(*alignment.QSeq) }
	case "multi-no-rows", "multi-empty-rows", "multiq-empty-rows":
		var rows []seq.Sequence
		if c.Kind == "multi-empty-rows" {
			rows = []seq.Sequence{linear.NewSeq("a", nil, a), linear.NewSeq("b", nil, a)}
		}
		if c.Kind == "multiq-empty-rows" {
			rows = []seq.Sequence{linear.NewQSeq("a", nil, a, alphabet.Sanger), linear.NewQSeq("b", nil, a, alphabet.Sanger)}
		}
		m, err := multi.NewMulti("e", rows, seq.DefaultConsensus)
		if err != nil {
			return vlib.Failf("construction", "multi.NewMulti: %v", err)
		}
		obj, length = m, m.Len
		clone = func() emptyObj { return m.Clone().(*multi.Multi) }
	default:
		s := multi.Set{}
		if c.Kind == "set-empty-rows" {
			s = multi.Set{linear.NewSeq("a", nil, a), linear.NewQSeq("b", nil, a, alphabet.Sanger)}
		}
		obj, length = s, s.Len
	}
	want := seq.Strand(c.Strand)
	for _, op := range c.Ops {
		switch op {
		case "revcomp":
			obj.RevComp()
			want = -want
		case "reverse":
			obj.Reverse()
			want = 0 // not asserted after a Reverse (the statement leaves the strand of a reversed sequence open)
			strand = nil
		case "clone":
			if clone != nil {
				cl := clone()
				cl.RevComp() // a mutation of the clone; the original's strand must not move
			}
		}
		// (a Multi or Set without rows has no span at all: the extent is taken over
		// the rows, so its Len is not asserted - only that nothing panics)
		if n := length(); n != 0 && c.Kind != "multi-no-rows" && c.Kind != "set-no-rows" {
			return vlib.Failf("empty-length", "%s over %s: Len() = %d after %v", c.Kind, c.Alpha, n, c.Ops)
		}
	}
	if strand != nil && strand() != want {
		return vlib.Failf("revcomp-strand", "empty %s over %s starting on strand %d: strand %d after %v, want %d", c.Kind, c.Alpha, c.Strand, strand(), c.Ops, want)
	}
	return nil
}

func TestEmpty(t *testing.T) {
	vlib.RunEnum(t, vlib.Enum[emptyCase]{Name: "empty-containers", DistinctByConstruction: true,
		Each: func(yield func(emptyCase) bool) {
			for _, k := range emptyKinds {
				for _, al := range compAlphas {
					for _, st := range []int8{1, -1, 0} {
						for _, ops := range emptyOps {
							if !yield(emptyCase{Kind: k, Alpha: al, Strand: st, Ops: ops}) {
								return
							}
						}
					}
				}
			}
		},
		Check:   checkEmpty,
		Classes: func(c emptyCase) []string { return []string{"empty-" + c.Kind, vlib.NT} }})
}
