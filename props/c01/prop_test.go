// C01 — FASTA and FASTQ write-then-read reproduces every record.
package c01

import (
	"bytes"
	"fmt"
	"os"
	"strings"
	"testing"

	"github.com/biogo/biogo/alphabet"
	"github.com/biogo/biogo/seq/linear"
	"pgregory.net/rapid"

	"verif/internal/iogen"
	"verif/internal/vlib"
)

func TestMain(m *testing.M) { vlib.Main(m, "C01"); os.Exit(0) }

func fail(err error) *vlib.Failure {
	if err == nil {
		return nil
	}
	k, m := iogen.ErrKind(err)
	return &vlib.Failure{Kind: k, Msg: m}
}

func checkRoundTrip(f iogen.SeqFile) *vlib.Failure {
	data, err := f.WriteLib()
	if err != nil {
		return fail(err)
	}
	got, err := f.ReadLib(data)
	if err != nil {
		return fail(err)
	}
	return fail(f.Compare(got))
}

func classes(f iogen.SeqFile) []string {
	var l []string
	nt := false
	if len(f.Recs) >= 2 {
		l = append(l, "records>=2")
		nt = true
	}
	if len(f.Recs) == 0 {
		l = append(l, "no-records")
	}
	if len(f.Recs) >= 30 {
		l = append(l, "many-short-reads")
	}
	if f.TmplCap > 0 && len(f.Recs) >= 2 {
		l = append(l, "template-owns-an-empty-buffer")
	}
	for i := 1; i < len(f.Recs); i++ {
		if f.Recs[i].Len > 255 && f.Recs[i-1].Len > f.Recs[i].Len {
			l = append(l, "read-over-255-letters-after-a-longer-one")
			break
		}
	}
	lo, hi := 0, 0
	if f.Format == "fastq" {
		lo, hi = iogen.PhredRange(alphabet.Encoding(f.Enc))
	}
	off := iogen.PhredOffset(alphabet.Encoding(f.Enc))
	seen := map[string]bool{}
	for _, r := range f.Recs {
		if r.Len > 4096 {
			seen["seq>4096"] = true
		}
		if r.Len > 8192 {
			seen["seq>8192"] = true
		}
		if r.Len >= 65536 {
			seen["seq>=65536"] = true
		}
		if r.Len == 0 {
			seen["empty-seq"] = true
		}
		if len(r.Desc) > 4000 {
			seen["header-line>4000"] = true
		}
		if f.Format == "fasta" && r.Len > f.Width {
			seen["multi-line"] = true
		}
		if f.Format == "fasta" && f.Width >= 1<<31 && r.Len >= 2 {
			seen["width-near-the-largest-int"] = true
		}
		if f.Format == "fasta" && f.Width > 0 && r.Len > 0 && r.Len%f.Width == 0 {
			seen["len-multiple-of-width"] = true
		}
		if strings.ContainsAny(r.Name+r.Desc, ">@+") {
			seen["marker-char-in-header"] = true
		}
		if f.Format == "fastq" && f.WriteQ && len(r.QPat) > 0 {
			if c := byte(r.QPat[0] + off); c == '@' || c == '+' {
				seen["quality-line-starts-with-marker"] = true
			}
			for _, q := range r.QPat {
				if q == lo || q == hi {
					seen["score-at-range-end"] = true
				}
			}
		}
	}
	for k := range seen {
		l = append(l, k)
		if k != "marker-char-in-header" && k != "multi-line" {
			nt = true
		}
	}
	l = append(l, iogen.RouteClasses(f.Route)...)
	l = append(l, fmt.Sprintf("write-q=%v/read-q=%v", f.WriteQ, f.ReadQ))
	if f.Format == "fastq" {
		l = append(l, "enc="+fmt.Sprint(f.Enc), fmt.Sprintf("qid=%v", f.QID))
	}
	if nt {
		l = append(l, vlib.NT)
	}
	return l
}

func maxRecs() int {
	if vlib.Thorough() {
		return 40
	}
	return 8
}

func TestFasta(t *testing.T) {
	vlib.Run(t, vlib.Prop[iogen.SeqFile]{Name: "fasta-roundtrip", Checks: 2500, Thorough: 200000,
		Gen:   func(t *rapid.T) iogen.SeqFile { return iogen.GenSeqFile(t, "fasta", maxRecs(), true) },
		Check: checkRoundTrip, Classes: classes,
		MinFrac: map[string]float64{"seq>4096": 0.02, "empty-seq": 0.05, "records>=2": 0.3, "len-multiple-of-width": 0.03, "template-owns-an-empty-buffer": 0.08}})
}

func TestFastq(t *testing.T) {
	vlib.Run(t, vlib.Prop[iogen.SeqFile]{Name: "fastq-roundtrip", Checks: 2500, Thorough: 200000,
		Gen:   func(t *rapid.T) iogen.SeqFile { return iogen.GenSeqFile(t, "fastq", maxRecs(), true) },
		Check: checkRoundTrip, Classes: classes,
		MinFrac: map[string]float64{"seq>4096": 0.02, "empty-seq": 0.05, "records>=2": 0.3, "quality-line-starts-with-marker": 0.02, "score-at-range-end": 0.1, "template-owns-an-empty-buffer": 0.08}})
}

// Format verbs: %a, %<w>a, %q, %+q of linear.Seq and linear.QSeq are a second
// way of producing FASTA / FASTQ text and must be readable by the same readers.
type verbCase struct {
	File iogen.SeqFile `json:"file"`
	UseW bool          `json:"use_width"`
}

func checkVerbs(c verbCase) *vlib.Failure {
	f := c.File
	var buf bytes.Buffer
	for _, r := range f.Recs {
		v := f.Value(r)
		if q, ok := v.(*linear.QSeq); ok {
			q.Threshold = 0 // every letter is at or above the threshold: no letter is masked
		}
		switch {
		case f.Format == "fasta" && c.UseW && f.Width <= 100000: // fmt caps the width of a verb at a million
			fmt.Fprintf(&buf, "%*a\n", f.Width, v)
		case f.Format == "fasta":
			fmt.Fprintf(&buf, "%a\n", v)
		case f.QID:
			fmt.Fprintf(&buf, "%+q\n", v)
		default:
			fmt.Fprintf(&buf, "%q\n", v)
		}
	}
	got, err := f.ReadLib(buf.Bytes())
	if err != nil {
		return fail(err)
	}
	return fail(f.Compare(got))
}

func TestFormatVerbs(t *testing.T) {
	vlib.Run(t, vlib.Prop[verbCase]{Name: "format-verbs", Checks: 1500, Thorough: 100000,
		Gen: func(t *rapid.T) verbCase {
			format := rapid.SampledFrom([]string{"fasta", "fastq"}).Draw(t, "format")
			return verbCase{File: iogen.GenSeqFile(t, format, 5, false), UseW: rapid.Bool().Draw(t, "use-width")}
		},
		Check: checkVerbs,
		Classes: func(c verbCase) []string {
			l := classes(c.File)
			l = append(l, "verb-"+c.File.Format)
			return l
		}})
}
