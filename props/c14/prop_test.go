// C14 — PALS q-gram filter reports every epsilon-match (no false negatives).
package c14

import (
	"fmt"
	"io"
	"os"
	"testing"

	"github.com/biogo/biogo/align/pals/filter"
	"github.com/biogo/biogo/alphabet"
	"github.com/biogo/biogo/index/kmerindex"
	"github.com/biogo/biogo/morass"
	"github.com/biogo/biogo/seq/linear"
	"pgregory.net/rapid"

	"verif/internal/vlib"
)

func TestMain(m *testing.M) { vlib.Main(m, "C14"); os.Exit(0) }

type filterCase struct {
	K     int    `json:"k"`
	E     int    `json:"e"`
	N     int    `json:"n"`
	Off   int    `json:"offset"`
	TLen  int    `json:"tlen"`
	QLen  int    `json:"qlen"`
	T0    int    `json:"t0"`
	Q0    int    `json:"q0"`
	Subs  []int  `json:"subs"` // positions inside the window that are substituted (at most E)
	Self  bool   `json:"self"`
	SeedT uint64 `json:"seed_t"`
	SeedQ uint64 `json:"seed_q"`
	// PreSeed != 0: the same Filter value first filters another query of PreLen letters (as PALS does
	// when it searches the two strands one after the other); its hits are discarded
	PreSeed uint64 `json:"pre_seed,omitempty"`
	PreLen  int    `json:"pre_len,omitempty"`
	// PreSelf: the earlier use of the Filter value is a forward self comparison of the target (then
	// PreSeed/PreLen are not used); whatever that mode sets up must not outlive the call
	PreSelf bool `json:"pre_self,omitempty"`
	// PreFail (with PreSeed): the earlier call fails part way - its hit store was made for another element
	// type, so the first hit it is given is refused and Filter returns that error
	PreFail bool `json:"pre_fail,omitempty"`
	// Comp: the complement flag passed to Filter. Only generated for ordinary (non-self) comparison,
	// where the flag is documented to matter only together with selfAlign and must change nothing
	// (PALS passes it for the second strand of every query).
	Comp bool `json:"complement,omitempty"`
	// Chunk: in-memory run size of the sorter the hits are pushed to (0 = 4096). Small values make
	// the hit store spill to run files, in particular after an earlier query that stayed in memory.
	Chunk int `json:"chunk,omitempty"`
	// Block > 0 (ordinary comparison only): target and query each hold a run of Block identical letters,
	// starting at T0 and Q0; the planted match is the first window of the two runs. Every tube across the
	// runs then collects tens of thousands of common k-mers in one run of hits.
	Block int `json:"block,omitempty"`
	// TwoLetters: both sequences are drawn over A and C only, so that words shared by chance are
	// everywhere (k = 4: one window in sixteen): long chains of chance hits run through every tube and
	// into the planted match.
	TwoLetters bool `json:"two_letters,omitempty"`
	// Chain > 0 (ordinary comparison only): Chain single shared words (k letters each) lie on the match
	// diagonal in front of the match, Spacing letters apart (at most n-k, so that the filter's run of
	// k-mer hits does not break): one long sparse run leads into the planted match.
	Chain   int `json:"chain,omitempty"`
	Spacing int `json:"spacing,omitempty"`
}

// expand is a pure function of the seed: a fixed linear congruential sequence mapped to ACGT.
func expand(seed uint64, n int) []byte {
	b := make([]byte, n)
	x := seed*6364136223846793005 + 1442695040888963407
	for i := range b {
		x = x*6364136223846793005 + 1442695040888963407
		b[i] = "ACGT"[(x>>33)&3]
	}
	return b
}

func (c filterCase) sequences() (t, q []byte) {
	t, q = c.sequences4()
	if c.TwoLetters {
		// A, G -> A and C, T -> C: equal letters stay equal, so the planted match keeps at most its
		// substitutions (some of them may vanish)
		fold := func(b []byte) []byte {
			out := make([]byte, len(b))
			for i, x := range b {
				out[i] = 'A'
				if x == 'C' || x == 'T' {
					out[i] = 'C'
				}
			}
			return out
		}
		if c.Self {
			t = fold(t)
			return t, t
		}
		return fold(t), fold(q)
	}
	return t, q
}

func (c filterCase) sequences4() (t, q []byte) {
	if c.Self {
		// Forward fill, one letter at a time, so that a lag Q0-T0 smaller than N gives a tandem
		// repeat of that period: window T0 and window Q0 differ exactly at the substituted offsets
		// (a substituted letter is itself copied on, so it costs one mismatch, not two). For a lag
		// of N or more this is a plain copy followed by the substitutions.
		s := expand(c.SeedT, c.TLen)
		sub := map[int]bool{}
		for _, p := range c.Subs {
			sub[p] = true
		}
		for i := 0; i < c.N; i++ {
			s[c.Q0+i] = s[c.T0+i]
			if sub[i] {
				s[c.Q0+i] = other(s[c.Q0+i])
			}
		}
		return s, s
	}
	t = expand(c.SeedT, c.TLen)
	q = expand(c.SeedQ, c.QLen)
	if c.Block > 0 {
		for i := 0; i < c.Block; i++ {
			t[c.T0+i], q[c.Q0+i] = 'A', 'A'
		}
		return t, q
	}
	copy(q[c.Q0:c.Q0+c.N], t[c.T0:c.T0+c.N])
	for _, p := range c.Subs {
		q[c.Q0+p] = other(q[c.Q0+p])
	}
	for j := 1; j <= c.Chain; j++ {
		if qp, tp := c.Q0-j*c.Spacing, c.T0-j*c.Spacing; qp >= 0 && tp >= 0 {
			copy(q[qp:qp+c.K], t[tp:tp+c.K])
		}
	}
	return t, q
}

func other(b byte) byte {
	switch b {
	case 'A':
		return 'C'
	case 'C':
		return 'G'
	case 'G':
		return 'T'
	}
	return 'A'
}

func runFilter(c filterCase, t, q []byte) ([]filter.Hit, error) {
	ts := linear.NewSeq("t", alphabet.BytesToLetters(t), alphabet.DNA)
	qs := ts
	if !c.Self {
		qs = linear.NewSeq("q", alphabet.BytesToLetters(q), alphabet.DNA)
	}
	ki, err := kmerindex.New(c.K, ts)
	if err != nil {
		return nil, err
	}
	ki.Build()
	f := filter.New(ki, &filter.Params{WordSize: c.K, MinMatch: c.N, MaxError: c.E, TubeOffset: c.Off})
	// once with the roomy hit store; when the case asks for small runs, a second time with them -
	// sized so that no more than about a hundred run files are open at once - and the two hit
	// lists have to agree
	hits, most, err := filterOnce(c, f, t, qs, 1<<12)
	if err != nil || c.Chunk <= 0 {
		return hits, err
	}
	chunk := c.Chunk
	if least := most/100 + 1; chunk < least {
		chunk = least
	}
	small, _, err := filterOnce(c, f, t, qs, chunk)
	if err != nil {
		return nil, err
	}
	if len(small) != len(hits) {
		return nil, fmt.Errorf("hit-store-dependence: %d hits with runs of 4096, %d with runs of %d", len(hits), len(small), chunk)
	}
	// compared as multisets (the sorter orders hits by its own key only)
	key := func(h filter.Hit) [3]int { return [3]int{h.From, h.To, h.Diagonal} }
	cnt := map[[3]int]int{}
	for _, h := range hits {
		cnt[key(h)]++
	}
	for _, h := range small {
		if cnt[key(h)] == 0 {
			return nil, fmt.Errorf("hit-store-dependence: hit %+v is delivered with runs of %d but not with runs of 4096", h, chunk)
		}
		cnt[key(h)]--
	}
	return small, nil
}

// filterOnce runs the (optional) earlier query and the query proper through one hit store with
// the given run size; most is the larger of the two hit counts.
func filterOnce(c filterCase, f *filter.Filter, t []byte, qs *linear.Seq, chunk int) (hits []filter.Hit, most int, err error) {
	m, err := morass.New(filter.Hit{}, "flt", "", chunk, false)
	if err != nil {
		return nil, 0, err
	}
	defer m.CleanUp()
	if c.PreSelf && !c.Self {
		if err := f.Filter(linear.NewSeq("t", alphabet.BytesToLetters(t), alphabet.DNA), true, false, m); err != nil {
			return nil, 0, err
		}
		for {
			var h filter.Hit
			if err := m.Pull(&h); err != nil {
				break
			}
			most++
		}
		if err := m.Clear(); err != nil {
			return nil, 0, err
		}
	} else if c.PreSeed != 0 && !c.Self {
		pre := expand(c.PreSeed, c.PreLen)
		// the earlier query shares stretches with the target so that it leaves k-mer counts behind
		// (in one case of three it shares nothing and produces few or no hits, so that a small hit
		// store stays in memory for it and spills for the query proper)
		for i := 0; c.PreSeed%3 != 0 && i+40 < len(pre) && i+40 < len(t); i += 97 {
			copy(pre[i:i+40], t[(i*7)%(len(t)-40):])
		}
		if c.PreFail {
			bad, err := morass.New(notAHit(0), "bad", "", 16, false)
			if err != nil {
				return nil, 0, err
			}
			if f.Filter(linear.NewSeq("pre", alphabet.BytesToLetters(pre), alphabet.DNA), false, false, bad) != nil {
				vlib.Count("earlier-call-failed", 1)
			}
			bad.CleanUp()
		} else if err := f.Filter(linear.NewSeq("pre", alphabet.BytesToLetters(pre), alphabet.DNA), false, false, m); err != nil {
			return nil, 0, err
		}
		for {
			var h filter.Hit
			if err := m.Pull(&h); err != nil {
				break
			}
			most++
		}
		if err := m.Clear(); err != nil {
			return nil, 0, err
		}
	}
	if err := f.Filter(qs, c.Self, c.Comp && !c.Self, m); err != nil {
		return nil, 0, err
	}
	for {
		var h filter.Hit
		err := m.Pull(&h)
		if err == io.EOF {
			break
		}
		if err != nil {
			return nil, 0, err
		}
		hits = append(hits, h)
	}
	if len(hits) > most {
		most = len(hits)
	}
	return hits, most, nil
}

// notAHit is the element type of a hit store that refuses filter hits.
type notAHit int

func (a notAHit) Less(b interface{}) bool { return a < b.(notAHit) }

func covered(c filterCase, hits []filter.Hit, t0, q0 int) bool {
	d := q0 - t0
	for _, h := range hits {
		if -h.Diagonal <= d && d < -h.Diagonal+c.Off+c.E && h.From < q0+c.N && h.To > q0 {
			return true
		}
	}
	return false
}

// ---- the known boundary defect (KF-C14): slot-event predicate -------------------------------------
//
// Pure arithmetic on (k, e, offset, Tlen, Qlen, t0, q0, n); no filter code is called. For each tube X
// the match feeds, list the events that touch ring slot X mod ring in time order: the recycling ticks
// (at query positions off+e-1+m*off <= Qlen-k, each retiring index floor(q/off)), the final
// tubeEnd(Qlen-1), and the flush indices in order. The match is safe via X iff
//   - no event hits the slot while the match is being counted, i.e. at a time in [q0, q0+n-k),
//   - the first event at or after q0+n-k carries index X (otherwise the run is emitted under another
//     tube's index, or not at all), and
//   - that event happens before a tube that shares the ring slot (index X+ring, or X-ring) can put
//     k-mers into it.
//
// A miss is the known finding iff the match is safe via none of its tubes.
func safeVia(c filterCase, X int) (bool, string) {
	ring := (c.TLen+c.Off+c.E-1)/c.Off + 1
	slot := ((X % ring) + ring) % ring
	lastKmer := c.QLen - c.K // last query k-mer position
	first, last := c.Q0, c.Q0+c.N-c.K
	type ev struct {
		time  int // query position after whose k-mers the event acts; lastKmer+1.. for the end-of-query events
		index int
	}
	var evs []ev
	for m := 0; ; m++ {
		q := c.Off + c.E - 1 + m*c.Off
		if q > lastKmer {
			break
		}
		evs = append(evs, ev{q, q / c.Off})
	}
	tm := lastKmer + 1
	evs = append(evs, ev{tm, (c.QLen - 1) / c.Off})
	tw := c.Off + c.E
	diagFrom := c.QLen - tw
	diagTo := c.TLen + c.QLen - 1 + tw
	tubeFrom := diagFrom / c.Off
	if tubeFrom < 0 {
		tubeFrom = 0
	}
	for idx := tubeFrom; idx <= diagTo/c.Off; idx++ {
		tm++
		evs = append(evs, ev{tm, idx})
	}
	for _, e := range evs {
		if ((e.index%ring)+ring)%ring != slot {
			continue
		}
		if e.time >= first && e.time < last {
			return false, fmt.Sprintf("slot %d is reset at query position %d (index %d) while the match [%d,%d] is being counted", slot, e.time, e.index, first, last)
		}
		if e.time >= last {
			if e.index != X {
				return false, fmt.Sprintf("the first event on slot %d after the match carries index %d, not %d", slot, e.index, X)
			}
			// tubes sharing the slot
			if up := (X+ring)*c.Off - c.TLen; e.time >= up && up <= lastKmer {
				return false, fmt.Sprintf("tube %d shares slot %d and can receive k-mers from query position %d, before the slot is retired at %d", X+ring, slot, up, e.time)
			}
			return true, ""
		}
	}
	return false, "no event retires the slot"
}

// lowerAliasActive reports whether the tube X-ring, which shares X's slot, can still receive k-mers
// when the match starts (its highest diagonal is (X-ring)*off+off+e-1 and a k-mer at query position q
// lies on a diagonal >= q+k).
func lowerAliasActive(c filterCase, X int) bool {
	ring := (c.TLen+c.Off+c.E-1)/c.Off + 1
	top := (X-ring)*c.Off + c.Off + c.E - 1
	return X-ring >= 0 && top-c.K >= c.Q0-(c.N-c.K)
}

func explain(c filterCase) (known bool, why string) {
	D := c.TLen + c.Q0 - c.T0
	X := D / c.Off
	tubes := []int{X}
	if D%c.Off < c.E {
		ring := (c.TLen+c.Off+c.E-1)/c.Off + 1
		if X == 0 {
			tubes = append(tubes, ring-1)
		} else {
			tubes = append(tubes, X-1)
		}
	}
	var reasons []string
	for _, x := range tubes {
		ok, r := safeVia(c, x)
		if ok && !lowerAliasActive(c, x) {
			return false, ""
		}
		if ok {
			r = fmt.Sprintf("tube %d shares the slot of tube %d and is still active when the match starts", x, x)
		}
		reasons = append(reasons, fmt.Sprintf("tube %d: %s", x, r))
	}
	return true, fmt.Sprint(reasons)
}

func check(c filterCase) *vlib.Failure {
	t, q := c.sequences()
	hits, err := runFilter(c, t, q)
	if err != nil {
		return vlib.Failf("error", "%v", err)
	}
	desc := fmt.Sprintf("k=%d e=%d n=%d offset=%d Tlen=%d Qlen=%d planted t0=%d q0=%d (%d substitutions) self=%v complement=%v", c.K, c.E, c.N, c.Off, c.TLen, len(q), c.T0, c.Q0, len(c.Subs), c.Self, c.Comp)
	if !covered(c, hits, c.T0, c.Q0) {
		if known, why := explain(c); known {
			return vlib.Failf("filter-boundary-miss", "%s: no hit covers the match; %s", desc, why)
		}
		return vlib.Failf("false-negative", "%s: no reported hit has a diagonal band containing %d and a query interval overlapping [%d,%d) (%d hits: %v)", desc, c.Q0-c.T0, c.Q0, c.Q0+c.N, len(hits), clipHits(hits))
	}
	vlib.Count("planted-matches-found", 1)
	// on short inputs every epsilon-match that occurs by chance must be covered too
	if len(t)*len(q) <= 90000 && !c.Self {
		for t0 := 0; t0+c.N <= len(t); t0++ {
			for q0 := 0; q0+c.N <= len(q); q0++ {
				mm := 0
				for i := 0; i < c.N && mm <= c.E; i++ {
					if t[t0+i] != q[q0+i] {
						mm++
					}
				}
				if mm > c.E || (t0 == c.T0 && q0 == c.Q0) {
					continue
				}
				vlib.Count("chance-matches-checked", 1)
				if !covered(c, hits, t0, q0) {
					cc := c
					cc.T0, cc.Q0 = t0, q0
					if known, why := explain(cc); known {
						return vlib.Failf("filter-boundary-miss", "%s: chance match t0=%d q0=%d is not covered; %s", desc, t0, q0, why)
					}
					return vlib.Failf("false-negative", "%s: the %d-mismatch match at t0=%d q0=%d is not covered by any hit (%v)", desc, mm, t0, q0, clipHits(hits))
				}
			}
		}
	}
	return nil
}

func clipHits(h []filter.Hit) string {
	if len(h) > 8 {
		return fmt.Sprint(h[:8]) + "…"
	}
	return fmt.Sprint(h)
}

func gen(t *rapid.T) filterCase {
	c := filterCase{K: rapid.IntRange(4, 10).Draw(t, "k"), E: rapid.IntRange(0, 4).Draw(t, "e"), SeedT: rapid.Uint64().Draw(t, "seed-t"), SeedQ: rapid.Uint64().Draw(t, "seed-q")}
	thr := rapid.IntRange(1, 20).Draw(t, "threshold")
	c.N = thr - 1 + c.K*(c.E+1)
	c.Off = c.E + rapid.IntRange(0, 64).Draw(t, "offset-above-e")
	if rapid.IntRange(0, 3).Draw(t, "narrow-tubes") == 0 {
		c.Off = c.E + rapid.IntRange(0, 6).Draw(t, "small-offset-above-e")
	}
	if c.Off == 0 {
		c.Off = 1
	}
	maxLen := 900
	if vlib.Thorough() {
		maxLen = 5000
	}
	minLen := max(100, c.N+2)
	if rapid.IntRange(0, 2).Draw(t, "short") == 0 {
		maxLen = max(minLen, 300)
	}
	c.TLen = rapid.IntRange(minLen, max(minLen, maxLen)).Draw(t, "tlen")
	c.Self = rapid.IntRange(0, 4).Draw(t, "self") == 0
	place := func(label string, length int) int {
		hi := length - c.N
		switch rapid.IntRange(0, 3).Draw(t, label+"-place") {
		case 0:
			return rapid.IntRange(0, min(hi, 60)).Draw(t, label+"-near-start")
		case 1:
			return rapid.IntRange(max(0, hi-60), hi).Draw(t, label+"-near-end")
		}
		return rapid.IntRange(0, hi).Draw(t, label)
	}
	if c.Self {
		if c.TLen < 2*c.N+2 {
			c.TLen = 2*c.N + 2
		}
		c.QLen = c.TLen
		c.T0 = rapid.IntRange(0, c.TLen-2*c.N).Draw(t, "self-t0")
		switch rapid.IntRange(0, 3).Draw(t, "self-lag") {
		case 0: // tandem repeat with a period below the word size
			c.Q0 = c.T0 + rapid.IntRange(1, c.K-1).Draw(t, "lag-below-k")
		case 1: // overlapping copies
			c.Q0 = c.T0 + rapid.IntRange(1, c.N).Draw(t, "lag-below-n")
		default:
			c.Q0 = rapid.IntRange(c.T0+c.N, c.TLen-c.N).Draw(t, "self-q0")
		}
	} else {
		c.QLen = rapid.IntRange(minLen, max(minLen, maxLen)).Draw(t, "qlen")
		c.T0 = place("t0", c.TLen)
		c.Q0 = place("q0", c.QLen)
	}
	c.Comp = !c.Self && rapid.IntRange(0, 2).Draw(t, "complement-flag") == 0
	if !c.Self && rapid.IntRange(0, 2).Draw(t, "reuse-filter") == 0 {
		c.PreSeed = rapid.Uint64Range(1, 1<<62).Draw(t, "pre-seed")
		c.PreLen = rapid.IntRange(minLen, max(minLen, maxLen)).Draw(t, "pre-len")
		c.PreFail = rapid.IntRange(0, 3).Draw(t, "pre-fail") == 0
	}
	c.Chunk = rapid.SampledFrom([]int{0, 0, 0, 0, 0, 1, 3, 16, 64}).Draw(t, "hit-store-chunk")
	if !c.Self && rapid.IntRange(0, 7).Draw(t, "reuse-after-self") == 3 {
		c.PreSelf = true
	}
	if !c.Self && rapid.IntRange(0, 39).Draw(t, "low-complexity-block") == 17 {
		c.Block = rapid.IntRange(1500, 3000).Draw(t, "block")
		if need := 70000/c.Block + 1; c.Off+c.E < need {
			c.Off = need
		}
		c.T0 = rapid.IntRange(0, 200).Draw(t, "block-t0")
		c.Q0 = rapid.IntRange(0, 400).Draw(t, "block-q0")
		c.TLen = c.T0 + c.Block + rapid.IntRange(c.N, 300+c.N).Draw(t, "block-t-tail")
		c.QLen = c.Q0 + c.Block + rapid.IntRange(c.N, 300+c.N).Draw(t, "block-q-tail")
		c.PreSeed, c.PreLen, c.PreSelf = 0, 0, false
		return c
	}
	c.TwoLetters = rapid.IntRange(0, 9).Draw(t, "two-letters") == 4
	if !c.Self && c.N-c.K >= 2 && rapid.IntRange(0, 7).Draw(t, "sparse-chain") == 6 {
		c.Chain = rapid.IntRange(1, 14).Draw(t, "chain")
		c.Spacing = c.N - c.K - rapid.IntRange(0, min(3, c.N-c.K-1)).Draw(t, "spacing-below-max")
		// room for the chain in front of the match in both sequences, on the match diagonal
		need := c.Chain * c.Spacing
		lead := need + rapid.IntRange(0, 40).Draw(t, "chain-lead")
		c.T0, c.Q0 = lead+rapid.IntRange(0, 30).Draw(t, "chain-t-extra"), lead+rapid.IntRange(0, 30).Draw(t, "chain-q-extra")
		c.TLen = max(c.TLen, c.T0+c.N+rapid.IntRange(0, 200).Draw(t, "chain-t-tail"))
		c.QLen = max(c.QLen, c.Q0+c.N+rapid.IntRange(0, 200).Draw(t, "chain-q-tail"))
		if rapid.Bool().Draw(t, "chain-exact-match") {
			c.E = 0 // (the threshold then equals the number of k-mers of the match)
		}
	}
	ns := rapid.IntRange(0, c.E).Draw(t, "nsubs")
	seen := map[int]bool{}
	for len(c.Subs) < ns {
		p := rapid.IntRange(0, c.N-1).Draw(t, "sub-pos")
		if !seen[p] {
			seen[p] = true
			c.Subs = append(c.Subs, p)
		}
	}
	return c
}

func classes(c filterCase) []string {
	if c.Block > 0 {
		return []string{"low-complexity-block-in-both-sequences", vlib.NT}
	}
	var l []string
	if c.TwoLetters {
		l = append(l, "sequences-over-two-letters")
	}
	if c.Chain > 0 {
		l = append(l, "sparse-chain-of-shared-words-leading-into-the-match")
	}
	thr := c.N + 1 - c.K*(c.E+1)
	if len(c.Subs) >= 1 && thr >= 2 {
		l = append(l, vlib.NT)
	}
	if c.Off > c.K {
		l = append(l, "offset>k")
	} else {
		l = append(l, "offset<=k")
	}
	if c.K > c.Off+c.E {
		l = append(l, "k>offset+e")
	}
	if c.Self {
		l = append(l, "self")
		if c.Q0-c.T0 < c.K {
			l = append(l, "self-tandem-period-below-k")
		} else if c.Q0-c.T0 < c.N {
			l = append(l, "self-overlapping-copies")
		}
	}
	if c.Comp {
		l = append(l, "complement-flag-in-ordinary-comparison")
		if c.Q0 < c.TLen-c.T0-c.N {
			l = append(l, "complement-flag-and-match-below-antidiagonal")
		}
	}
	if c.PreSelf {
		l = append(l, "filter-reused-after-a-self-comparison")
	}
	if c.PreSeed != 0 && c.PreFail && c.PreSeed%3 != 0 {
		l = append(l, "filter-reused-after-a-failed-call")
	}
	if c.PreSeed != 0 {
		l = append(l, "filter-reused-after-another-query")
		if c.Chunk > 0 {
			l = append(l, "hit-store-with-small-runs-reused")
		}
	}
	if c.Chunk > 0 {
		l = append(l, "hit-store-with-small-runs")
	}
	if c.T0 < 60 || c.Q0 < 60 {
		l = append(l, "near-a-start")
	}
	if c.TLen-c.T0-c.N < 60 || c.QLen-c.Q0-c.N < 60 {
		l = append(l, "near-an-end")
	}
	if known, _ := explain(c); known {
		l = append(l, "predicate-marks-unsafe")
	}
	return l
}

func TestFilter(t *testing.T) {
	vlib.Run(t, vlib.Prop[filterCase]{Name: "planted-and-chance-matches", Checks: 3000, Thorough: 320000, Gen: gen, Check: check, Classes: classes, MaxKnownFrac: 0.1,
		MinFrac: map[string]float64{"self": 0.1, "near-an-end": 0.2, "offset>k": 0.3, "offset<=k": 0.1, "filter-reused-after-another-query": 0.15,
			"self-tandem-period-below-k": 0.03, "complement-flag-in-ordinary-comparison": 0.15, "complement-flag-and-match-below-antidiagonal": 0.04}})
}
