// C06 — Truncate, Join, Stitch, Compose and Trim follow positional semantics.
//
// Oracle: a position model (letters indexed by absolute position) written here.
package c06

import (
	"fmt"
	"math"
	"os"
	"strings"
	"testing"

	"github.com/biogo/biogo/alphabet"
	"github.com/biogo/biogo/feat"
	"github.com/biogo/biogo/seq"
	"github.com/biogo/biogo/seq/linear"
	"github.com/biogo/biogo/seq/sequtils"
	"pgregory.net/rapid"

	sm "verif/internal/seqmodel"
	"verif/internal/vlib"
)

func TestMain(m *testing.M) { vlib.Main(m, "C06"); os.Exit(0) }

type seqSpec struct {
	Quality  bool   `json:"quality"`
	Alpha    string `json:"alpha"`
	L        string `json:"l"`
	Q        []int  `json:"q,omitempty"`
	Offset   int    `json:"offset"`
	Circular bool   `json:"circular,omitempty"`
	// Strand: 0 as constructed (plus), 1 minus, 2 none. The operations of this property work on the
	// letters as stored, whatever strand the sequence is annotated with.
	Strand int `json:"strand,omitempty"`
}

func (s seqSpec) strand() seq.Strand {
	switch s.Strand {
	case 1:
		return seq.Minus
	case 2:
		return seq.None
	}
	return seq.Plus
}

func (s seqSpec) end() int { return s.Offset + len(s.L) }

func (s seqSpec) q(i int) int {
	if !s.Quality {
		return int(seq.DefaultQphred)
	}
	return s.Q[i]
}

// sliceable is what both linear types offer to sequtils.
type sliceable interface {
	sequtils.Sliceable
	sequtils.Joinable
	At(int) alphabet.QLetter
	Set(int, alphabet.QLetter) error
	Len() int
	Conformation() feat.Conformation
}

func build(s seqSpec) sliceable {
	a := sm.Alpha(s.Alpha)
	conf := feat.Linear
	if s.Circular {
		conf = feat.Circular
	}
	if s.Quality {
		ql := make([]alphabet.QLetter, len(s.L))
		for i := range ql {
			ql[i] = alphabet.QLetter{L: alphabet.Letter(s.L[i]), Q: alphabet.Qphred(s.Q[i])}
		}
		x := linear.NewQSeq("src", ql, a, alphabet.Sanger)
		x.Offset = s.Offset
		x.Conform = conf
		x.Strand = s.strand()
		return x
	}
	x := linear.NewSeq("src", alphabet.BytesToLetters([]byte(s.L)), a)
	x.Offset = s.Offset
	x.Conform = conf
	x.Strand = s.strand()
	return x
}

func empty(s seqSpec) sliceable {
	a := sm.Alpha(s.Alpha)
	if s.Quality {
		return linear.NewQSeq("dst", nil, a, alphabet.Sanger)
	}
	return linear.NewSeq("dst", nil, a)
}

// usedDst is a destination that is not fresh: it already holds letters at a non-zero offset and,
// for used == 1, is circular (used == 2: linear). Nothing of that earlier content or frame may
// show in a result written into it.
func usedDst(s seqSpec, used int) sliceable {
	if used == 0 {
		return empty(s)
	}
	pool := sm.Alpha(s.Alpha).Letters()
	old := seqSpec{Quality: s.Quality, Alpha: s.Alpha, Offset: 9, Circular: used == 1}
	for i := 0; i < 11; i++ {
		old.L += string(pool[i%len(pool)])
		old.Q = append(old.Q, 7+i)
	}
	d := build(old)
	switch x := d.(type) {
	case *linear.Seq:
		x.ID = "dst"
	case *linear.QSeq:
		x.ID = "dst"
	}
	return d
}

type content struct {
	L string
	Q []int
}

func read(x sliceable, quality bool) content {
	var c content
	b := make([]byte, 0, x.Len())
	for p := x.Start(); p < x.End(); p++ {
		ql := x.At(p)
		b = append(b, byte(ql.L))
		if quality {
			c.Q = append(c.Q, int(ql.Q))
		}
	}
	c.L = string(b)
	return c
}

func (c content) equal(d content) bool {
	if c.L != d.L || len(c.Q) != len(d.Q) {
		return false
	}
	for i := range c.Q {
		if c.Q[i] != d.Q[i] {
			return false
		}
	}
	return true
}

// seg returns the model content of absolute positions [a,b) of s.
func (s seqSpec) seg(a, b int) content {
	var c content
	c.L = s.L[a-s.Offset : b-s.Offset]
	if s.Quality {
		c.Q = append([]int(nil), s.Q[a-s.Offset:b-s.Offset]...)
	}
	return c
}

func cat(cs ...content) content {
	var o content
	for _, c := range cs {
		o.L += c.L
		o.Q = append(o.Q, c.Q...)
	}
	return o
}

func scribble(x sliceable) {
	for p := x.Start(); p < x.End(); p++ {
		x.Set(p, alphabet.QLetter{L: '!', Q: 1})
	}
}

// independence: dst and src share no storage.
func independent(dst, src sliceable, quality bool, wantDst, wantSrc content, what string) *vlib.Failure {
	scribble(dst)
	if got := read(src, quality); !got.equal(wantSrc) {
		return vlib.Failf("shared-storage", "%s: writing through the result changed the source: %q -> %q", what, wantSrc.L, got.L)
	}
	wd := read(dst, quality)
	scribble(src)
	if got := read(dst, quality); !got.equal(wd) {
		return vlib.Failf("shared-storage", "%s: writing through the source changed the result", what)
	}
	return nil
}

func callNoPanic(what string, f func() error) (err error, fl *vlib.Failure) {
	defer func() {
		if r := recover(); r != nil {
			fl = vlib.Failf("panic", "%s panicked: %v", what, r)
		}
	}()
	return f(), nil
}

// ---- Truncate ---------------------------------------------------------------------

type truncCase struct {
	S       seqSpec `json:"s"`
	Start   int     `json:"start"`
	End     int     `json:"end"`
	SameDst bool    `json:"same_dst"`
	DstUsed int     `json:"dst_used,omitempty"` // see usedDst (only when dst != src)
}

func checkTrunc(c truncCase) *vlib.Failure {
	src := build(c.S)
	dst := src
	if !c.SameDst {
		dst = usedDst(c.S, c.DstUsed)
		if c.DstUsed == 3 {
			// a different object that starts out as a struct copy of the source (the way to carry
			// the annotation over): its letter slice is the source's until Truncate gives it its own
			switch x := src.(type) {
			case *linear.Seq:
				d := *x
				dst = &d
			case *linear.QSeq:
				d := *x
				dst = &d
			}
		}
	}
	off, end := c.S.Offset, c.S.end()
	var want content
	valid := false
	switch {
	case c.Start <= c.End:
		if c.Start >= off && c.End <= end {
			valid = true
			want = c.S.seg(c.Start, c.End)
		}
	case c.S.Circular:
		// start > end: through the origin
		if c.Start <= end && c.End >= off && c.Start >= off && c.End <= end {
			valid = true
			want = cat(c.S.seg(c.Start, end), c.S.seg(off, c.End))
		}
	}
	what := fmt.Sprintf("Truncate(%d,%d) of %q at [%d,%d) circular=%v same-dst=%v dst-used=%d", c.Start, c.End, c.S.L, off, end, c.S.Circular, c.SameDst, c.DstUsed)
	before := read(src, c.S.Quality)
	err, fl := callNoPanic(what, func() error { return sequtils.Truncate(dst, src, c.Start, c.End) })
	if fl != nil {
		return fl
	}
	if !valid {
		if err == nil {
			return vlib.Failf("out-of-range-accepted", "%s returned no error for a range outside the sequence (result %q)", what, read(dst, c.S.Quality).L)
		}
		if !c.SameDst || true {
			if got := read(src, c.S.Quality); !got.equal(before) || src.Start() != off {
				return vlib.Failf("source-changed", "%s failed but changed the source", what)
			}
		}
		return nil
	}
	if err != nil {
		return vlib.Failf("valid-range-rejected", "%s: %v", what, err)
	}
	got := read(dst, c.S.Quality)
	if !got.equal(want) {
		return vlib.Failf("truncate-letters", "%s = %q %v, the letters at those positions are %q %v", what, got.L, got.Q, want.L, want.Q)
	}
	if dst.Start() != c.Start {
		return vlib.Failf("truncate-offset", "%s: result starts at %d, want %d", what, dst.Start(), c.Start)
	}
	if dst.Conformation() != feat.Linear {
		return vlib.Failf("truncate-conformation", "%s: result is not linear", what)
	}
	if !c.SameDst {
		if g := read(src, c.S.Quality); !g.equal(before) || src.Start() != off || (src.Conformation() == feat.Circular) != c.S.Circular {
			return vlib.Failf("source-changed", "%s changed the source", what)
		}
		return independent(dst, src, c.S.Quality, want, before, what)
	}
	return nil
}

func genSeqSpec(t *rapid.T, label string, maxLen int, pairedOnly bool) seqSpec {
	s := seqSpec{Quality: rapid.Bool().Draw(t, label+"-quality"), Alpha: rapid.SampledFrom([]string{"DNA", "DNAredundant", "RNA", "Protein", "Protein", "PlainDNA", "PairedProtein"}).Draw(t, label+"-alpha"),
		Offset: rapid.SampledFrom([]int{0, 0, 1, 5, 50, -1, -7, -50}).Draw(t, label+"-offset"), Circular: rapid.IntRange(0, 2).Draw(t, label+"-circular") == 0}
	s.Strand = rapid.SampledFrom([]int{0, 0, 1, 2}).Draw(t, label+"-strand")
	n := rapid.IntRange(0, maxLen).Draw(t, label+"-len")
	pool := sm.Alpha(s.Alpha).Letters()
	if p := sm.PairedLetters(s.Alpha); p != "" {
		pool = p
	}
	b := make([]byte, n)
	for i := range b {
		b[i] = pool[rapid.IntRange(0, len(pool)-1).Draw(t, label+"-l")]
	}
	s.L = string(b)
	if s.Quality {
		s.Q = make([]int, n)
		for i := range s.Q {
			s.Q[i] = rapid.IntRange(0, 60).Draw(t, label+"-q")
		}
	}
	return s
}

func truncClasses(c truncCase) []string {
	var l []string
	if c.DstUsed == 1 {
		l = append(l, "destination-previously-circular")
	}
	off, end := c.S.Offset, c.S.end()
	inside := c.Start >= off && c.End <= end && c.Start <= end && c.End >= off
	switch {
	case !inside:
		l = append(l, "outside")
	case c.Start > c.End && c.S.Circular:
		l = append(l, "through-origin")
	case c.Start > c.End:
		l = append(l, "inverted-linear")
	default:
		l = append(l, "plain")
	}
	if c.SameDst {
		l = append(l, "dst=src")
	}
	if !c.SameDst && c.DstUsed == 3 && inside && c.End-c.Start >= 1 && c.Start > off {
		l = append(l, "dst-starts-as-a-struct-copy-of-src")
	}
	if len(c.S.L) >= 4 && (c.S.Offset != 0 || c.S.Circular) {
		l = append(l, vlib.NT)
	}
	return l
}

func TestTruncate(t *testing.T) {
	vlib.Run(t, vlib.Prop[truncCase]{Name: "truncate", Checks: 3000, Thorough: 300000,
		Gen: func(t *rapid.T) truncCase {
			s := genSeqSpec(t, "s", 60, false)
			c := truncCase{S: s, SameDst: rapid.Bool().Draw(t, "same-dst")}
			off, end := s.Offset, s.end()
			switch rapid.IntRange(0, 4).Draw(t, "range-class") {
			case 0: // anywhere around the sequence
				c.Start, c.End = rapid.IntRange(off-5, end+5).Draw(t, "start"), rapid.IntRange(off-5, end+5).Draw(t, "end")
			case 1, 2: // inside, start <= end
				c.Start = rapid.IntRange(off, end).Draw(t, "start-in")
				c.End = rapid.IntRange(c.Start, end).Draw(t, "end-in")
			default: // inside, start >= end (through the origin for circular sources)
				c.End = rapid.IntRange(off, end).Draw(t, "end-in")
				c.Start = rapid.IntRange(c.End, end).Draw(t, "start-in")
			}
			if !c.SameDst {
				c.DstUsed = rapid.IntRange(0, 3).Draw(t, "dst-used")
			}
			return c
		},
		Check: checkTrunc, Classes: truncClasses,
		MinFrac: map[string]float64{"outside": 0.08, "through-origin": 0.05, "plain": 0.2, "dst-starts-as-a-struct-copy-of-src": 0.015}})
}

func TestTruncateExhaustive(t *testing.T) {
	vlib.RunEnum(t, vlib.Enum[truncCase]{Name: "truncate-exhaustive-small", DistinctByConstruction: true,
		Each: func(yield func(truncCase) bool) {
			for n := 0; n <= 6; n++ {
				for _, off := range []int{-2, 0, 3} {
					for _, circ := range []bool{false, true} {
						for _, qual := range []bool{false, true} {
							for _, same := range []bool{false, true} {
								s := seqSpec{Quality: qual, Alpha: "DNA", L: "acgtnx"[:n], Offset: off, Circular: circ}
								if qual {
									s.Q = []int{1, 2, 3, 4, 5, 6}[:n]
								}
								for st := off - 2; st <= off+n+2; st++ {
									for en := off - 2; en <= off+n+2; en++ {
										if !yield(truncCase{S: s, Start: st, End: en, SameDst: same}) {
											return
										}
									}
								}
							}
						}
					}
				}
			}
		},
		Check: checkTrunc, Classes: truncClasses})
}

// ---- Join ---------------------------------------------------------------------------

type joinCase struct {
	A     seqSpec `json:"a"` // dst
	B     seqSpec `json:"b"` // src
	Where int     `json:"where"`
}

func checkJoin(c joinCase) *vlib.Failure {
	b := c.B
	b.Quality, b.Alpha = c.A.Quality, c.A.Alpha // Join requires the same concrete type
	if b.Quality && len(b.Q) != len(b.L) {
		b.Q = make([]int, len(b.L))
	}
	dst, src := build(c.A), build(b)
	wantA, wantB := read(dst, c.A.Quality), read(src, c.A.Quality)
	what := fmt.Sprintf("Join(dst %q circular=%v, src %q circular=%v, where=%d)", c.A.L, c.A.Circular, b.L, b.Circular, c.Where)
	err, fl := callNoPanic(what, func() error { return sequtils.Join(dst, src, c.Where) })
	if fl != nil {
		return fl
	}
	if c.A.Circular || b.Circular {
		if err == nil {
			return vlib.Failf("circular-join-accepted", "%s returned no error", what)
		}
		if got := read(dst, c.A.Quality); !got.equal(wantA) {
			return vlib.Failf("source-changed", "%s failed but changed the destination", what)
		}
		return nil
	}
	if err != nil {
		return vlib.Failf("join-error", "%s: %v", what, err)
	}
	want := cat(wantA, wantB)
	if c.Where == seq.Start {
		want = cat(wantB, wantA)
	}
	got := read(dst, c.A.Quality)
	if !got.equal(want) {
		return vlib.Failf("join-letters", "%s = %q, want the concatenation %q", what, got.L, want.L)
	}
	if c.Where == seq.Start && c.A.Offset == 0 && dst.Start() != -len(b.L) {
		return vlib.Failf("join-offset", "%s: prepending %d letters to a sequence at 0 must move its start to %d, got %d", what, len(b.L), -len(b.L), dst.Start())
	}
	if c.Where == seq.End && dst.Start() != c.A.Offset {
		return vlib.Failf("join-offset", "%s: appending must not move the start (%d -> %d)", what, c.A.Offset, dst.Start())
	}
	if g := read(src, c.A.Quality); !g.equal(wantB) || src.Start() != b.Offset {
		return vlib.Failf("source-changed", "%s changed the source", what)
	}
	return independent(dst, src, c.A.Quality, want, wantB, what)
}

func TestJoin(t *testing.T) {
	vlib.Run(t, vlib.Prop[joinCase]{Name: "join", Checks: 1500, Thorough: 100000,
		Gen: func(t *rapid.T) joinCase {
			c := joinCase{A: genSeqSpec(t, "a", 30, false), B: genSeqSpec(t, "b", 30, false), Where: rapid.SampledFrom([]int{seq.Start, seq.End}).Draw(t, "where")}
			c.A.Circular = rapid.IntRange(0, 7).Draw(t, "a-circular") == 0
			c.B.Circular = rapid.IntRange(0, 7).Draw(t, "b-circular") == 0
			return c
		},
		Check: checkJoin,
		Classes: func(c joinCase) []string {
			l := []string{fmt.Sprintf("where=%d", c.Where)}
			if c.A.Circular || c.B.Circular {
				return append(l, "circular")
			}
			if len(c.A.L) >= 2 && len(c.B.L) >= 2 {
				l = append(l, vlib.NT)
			}
			return l
		}})
}

// ---- Stitch / Compose ----------------------------------------------------------------

type featSpec struct {
	S      int  `json:"s"`
	E      int  `json:"e"`
	Orient int8 `json:"orient"` // -1 reverse, 0 not oriented, 1 forward
	Plain  bool `json:"plain"`  // does not implement feat.Orienter
}

type ft struct{ s, e int }

func (f *ft) Start() int             { return f.s }
func (f *ft) End() int               { return f.e }
func (f *ft) Len() int               { return f.e - f.s }
func (f *ft) Name() string           { return "" }
func (f *ft) Description() string    { return "" }
func (f *ft) Location() feat.Feature { return nil }

type oft struct {
	ft
	o feat.Orientation
}

func (f *oft) Orientation() feat.Orientation { return f.o }

type fset []feat.Feature

func (f fset) Features() []feat.Feature { return f }

func features(fs []featSpec) fset {
	var out fset
	for _, f := range fs {
		if f.Plain {
			out = append(out, &ft{f.S, f.E})
		} else {
			out = append(out, &oft{ft{f.S, f.E}, feat.Orientation(f.Orient)})
		}
	}
	return out
}

type stitchCase struct {
	S       seqSpec    `json:"s"`
	Feats   []featSpec `json:"feats"`
	SameDst bool       `json:"same_dst"`
	Compose bool       `json:"compose"`
	DstUsed int        `json:"dst_used,omitempty"` // see usedDst (only when dst != src)
	// Prior: an earlier call of the same function, on another sequence, with these features; when
	// one of them is inverted (end < start) that call is refused. Whatever it did, nothing of it
	// may show in the call that follows.
	Prior []featSpec `json:"prior,omitempty"`
}

func clampI(v, lo, hi int) int {
	if v < lo {
		return lo
	}
	if v > hi {
		return hi
	}
	return v
}

func revcompContent(alpha string, c content) content {
	n := len(c.L)
	b := make([]byte, n)
	comp := sm.PairedLetters(alpha) != ""
	for i := 0; i < n; i++ {
		l := c.L[n-1-i]
		if comp {
			l = sm.Complement(alpha, l)
		}
		b[i] = l
	}
	o := content{L: string(b)}
	for i := range c.Q {
		o.Q = append(o.Q, c.Q[n-1-i])
	}
	return o
}

func checkStitch(c stitchCase) *vlib.Failure {
	if len(c.Prior) > 0 {
		ps := c.S
		ps.Offset, ps.Circular = 0, false
		psrc := build(ps)
		if _, fl := callNoPanic("the earlier call", func() error {
			if c.Compose {
				return sequtils.Compose(empty(ps), psrc, features(c.Prior))
			}
			return sequtils.Stitch(empty(ps), psrc, features(c.Prior))
		}); fl != nil && !priorInverted(c.Prior) {
			return fl
		}
	}
	src := build(c.S)
	dst := src
	if !c.SameDst {
		dst = usedDst(c.S, c.DstUsed)
	}
	off, end := c.S.Offset, c.S.end()
	before := read(src, c.S.Quality)
	name := "Stitch"
	if c.Compose {
		name = "Compose"
	}
	what := fmt.Sprintf("%s of %q at [%d,%d) with features %+v same-dst=%v", name, c.S.L, off, end, c.Feats, c.SameDst)
	var want content
	if c.Compose {
		for _, f := range c.Feats {
			a, b := clampI(f.S, off, end), clampI(f.E, off, end)
			seg := c.S.seg(a, b)
			if !f.Plain && f.Orient < 0 {
				seg = revcompContent(c.S.Alpha, seg)
			}
			want = cat(want, seg)
		}
	} else {
		for p := off; p < end; p++ {
			for _, f := range c.Feats {
				if f.S <= p && p < f.E {
					want = cat(want, c.S.seg(p, p+1))
					break
				}
			}
		}
	}
	err, fl := callNoPanic(what, func() error {
		if c.Compose {
			return sequtils.Compose(dst, src, features(c.Feats))
		}
		return sequtils.Stitch(dst, src, features(c.Feats))
	})
	if fl != nil {
		return fl
	}
	if err != nil {
		return vlib.Failf("error", "%s: %v", what, err)
	}
	got := read(dst, c.S.Quality)
	if !got.equal(want) {
		k := "stitch-letters"
		if c.Compose {
			k = "compose-letters"
		}
		return vlib.Failf(k, "%s = %q %v, want %q %v", what, got.L, got.Q, want.L, want.Q)
	}
	if dst.Start() != 0 || dst.Conformation() != feat.Linear {
		return vlib.Failf("result-frame", "%s: result starts at %d conformation %v, want 0 and linear", what, dst.Start(), dst.Conformation())
	}
	if !c.SameDst {
		if g := read(src, c.S.Quality); !g.equal(before) || src.Start() != off || (src.Conformation() == feat.Circular) != c.S.Circular {
			return vlib.Failf("source-changed", "%s changed the source", what)
		}
		return independent(dst, src, c.S.Quality, want, before, what)
	}
	return nil
}

func priorInverted(fs []featSpec) bool {
	for _, f := range fs {
		if f.E < f.S {
			return true
		}
	}
	return false
}

func genStitch(compose bool) func(t *rapid.T) stitchCase {
	return func(t *rapid.T) stitchCase {
		c := stitchCase{S: genSeqSpec(t, "s", 40, true), SameDst: rapid.IntRange(0, 3).Draw(t, "same-dst") == 0, Compose: compose}
		off, end := c.S.Offset, c.S.end()
		n := rapid.IntRange(0, 6).Draw(t, "nfeats")
		for i := 0; i < n; i++ {
			s := rapid.IntRange(off-6, end+6).Draw(t, "fs")
			e := s + rapid.IntRange(0, 15).Draw(t, "flen")
			if compose {
				// Compose is defined for features that are at most partly outside the sequence
				if e < off {
					e = off + rapid.IntRange(0, 3).Draw(t, "pull-in")
				}
				if s > end {
					s = end - rapid.IntRange(0, 3).Draw(t, "pull-back")
					if s < off-6 {
						s = off - 6
					}
					if e < s {
						e = s
					}
				}
				if e < off || s > end {
					s, e = off, off
				}
			}
			f := featSpec{S: s, E: e, Orient: int8(rapid.SampledFrom([]int{1, 1, -1, -1, 0}).Draw(t, "orient")), Plain: rapid.IntRange(0, 5).Draw(t, "plain") == 0}
			c.Feats = append(c.Feats, f)
		}
		if !c.SameDst {
			c.DstUsed = rapid.IntRange(0, 2).Draw(t, "dst-used")
		}
		if rapid.IntRange(0, 3).Draw(t, "prior-call") == 0 {
			// an earlier call on a sequence at offset 0: features inside it, then (usually) an inverted one
			L := len(c.S.L)
			np := rapid.IntRange(1, 3).Draw(t, "nprior")
			for i := 0; i < np; i++ {
				ps := rapid.IntRange(0, L).Draw(t, "prior-s")
				pe := rapid.IntRange(ps, L).Draw(t, "prior-e")
				c.Prior = append(c.Prior, featSpec{S: ps, E: pe, Orient: int8(rapid.SampledFrom([]int{1, -1}).Draw(t, "prior-orient"))})
			}
			if rapid.IntRange(0, 2).Draw(t, "prior-inverted") > 0 {
				ps := rapid.IntRange(1, L+1).Draw(t, "prior-bad-s")
				c.Prior = append(c.Prior, featSpec{S: ps, E: ps - 1 - rapid.IntRange(0, 3).Draw(t, "prior-bad-len"), Orient: 1})
			}
		}
		return c
	}
}

func stitchClasses(c stitchCase) []string {
	var l []string
	if c.DstUsed != 0 {
		l = append(l, "destination-previously-used")
	}
	if len(c.Prior) > 0 {
		l = append(l, "after-an-earlier-call")
		if priorInverted(c.Prior) {
			l = append(l, "after-a-refused-call")
		}
	}
	rev, outside, overlap := 0, false, false
	off, end := c.S.Offset, c.S.end()
	for i, f := range c.Feats {
		if !f.Plain && f.Orient < 0 && f.E > f.S {
			rev++
		}
		if f.S < off || f.E > end {
			outside = true
		}
		for _, g := range c.Feats[:i] {
			if f.S < g.E && g.S < f.E {
				overlap = true
			}
		}
	}
	if rev >= 2 {
		l = append(l, "reverse-features>=2")
	}
	if rev >= 1 {
		l = append(l, "reverse-feature")
	}
	if outside {
		l = append(l, "partly-outside")
	}
	if overlap {
		l = append(l, "overlapping")
	}
	if sm.PairedLetters(c.S.Alpha) == "" {
		l = append(l, "non-complementing")
	}
	if c.S.Alpha == "PlainDNA" || c.S.Alpha == "PairedProtein" {
		l = append(l, "user-built-alphabet")
	}
	if c.SameDst {
		l = append(l, "dst=src")
	}
	if len(c.S.L) >= 4 && (c.S.Offset != 0 || c.S.Circular) && len(c.Feats) >= 1 || rev >= 2 {
		l = append(l, vlib.NT)
	}
	return l
}

func TestStitch(t *testing.T) {
	vlib.Run(t, vlib.Prop[stitchCase]{Name: "stitch", Checks: 2500, Thorough: 200000, Gen: genStitch(false), Check: checkStitch, Classes: stitchClasses,
		MinFrac: map[string]float64{"partly-outside": 0.2, "overlapping": 0.2}})
}

func TestCompose(t *testing.T) {
	vlib.Run(t, vlib.Prop[stitchCase]{Name: "compose", Checks: 2500, Thorough: 200000, Gen: genStitch(true), Check: checkStitch, Classes: stitchClasses,
		MinFrac: map[string]float64{"partly-outside": 0.2, "reverse-features>=2": 0.1, "non-complementing": 0.2}})
}

// ---- Trim ----------------------------------------------------------------------------

type trimCase struct {
	Q      []int `json:"q"`
	Offset int   `json:"offset"`
	Limit  int   `json:"limit_permille"` // limit = Limit/1000
}

func checkTrim(c trimCase) *vlib.Failure {
	ql := make([]alphabet.QLetter, len(c.Q))
	for i, q := range c.Q {
		ql[i] = alphabet.QLetter{L: 'a', Q: alphabet.Qphred(q)}
	}
	s := linear.NewQSeq("q", ql, alphabet.DNA, alphabet.Sanger)
	s.Offset = c.Offset
	limit := float64(c.Limit) / 1000
	start, end := sequtils.Trim(s, limit)
	n := len(c.Q)
	// brute force over all windows, the empty one included
	v := make([]float64, n)
	for i, q := range c.Q {
		v[i] = limit - math.Pow(10, -float64(q)/10)
	}
	best := 0.0
	for a := 0; a <= n; a++ {
		sum := 0.0
		for b := a; b < n; b++ {
			sum += v[b]
			if sum > best {
				best = sum
			}
		}
	}
	what := fmt.Sprintf("Trim(scores %v at offset %d, limit %.3f) = (%d,%d)", c.Q, c.Offset, limit, start, end)
	if start > end {
		return vlib.Failf("trim-inverted-window", "%s: start > end", what)
	}
	if start < s.Start() || end > s.End() {
		return vlib.Failf("trim-window-outside", "%s: the window is not inside [%d,%d)", what, s.Start(), s.End())
	}
	sum := 0.0
	for p := start; p < end; p++ {
		sum += v[p-c.Offset]
	}
	if sum < best-1e-9*float64(n+1) {
		return vlib.Failf("trim-not-maximal", "%s has sum %.6f, the best window has %.6f", what, sum, best)
	}
	return nil
}

func TestTrim(t *testing.T) {
	vlib.Run(t, vlib.Prop[trimCase]{Name: "trim", Checks: 3000, Thorough: 300000,
		Gen: func(t *rapid.T) trimCase {
			c := trimCase{Offset: rapid.SampledFrom([]int{0, 0, 3, 10, -4}).Draw(t, "offset"), Limit: rapid.SampledFrom([]int{50, 50, 10, 100, 1, 300, 999}).Draw(t, "limit")}
			n := rapid.IntRange(0, 40).Draw(t, "n")
			for len(c.Q) < n {
				good := rapid.Bool().Draw(t, "good")
				r := rapid.IntRange(1, 8).Draw(t, "run")
				for i := 0; i < r && len(c.Q) < n; i++ {
					if good {
						c.Q = append(c.Q, rapid.IntRange(15, 60).Draw(t, "q-good"))
					} else {
						c.Q = append(c.Q, rapid.IntRange(0, 12).Draw(t, "q-bad"))
					}
				}
			}
			return c
		},
		Check: checkTrim,
		Classes: func(c trimCase) []string {
			var l []string
			if c.Offset != 0 {
				l = append(l, "non-zero-offset")
			}
			// a bad run after a good one
			limit := float64(c.Limit) / 1000
			seenGood, badAfter := false, false
			for _, q := range c.Q {
				if limit-math.Pow(10, -float64(q)/10) > 0 {
					seenGood = true
				} else if seenGood {
					badAfter = true
				}
			}
			if badAfter {
				l = append(l, "bad-run-after-good", vlib.NT)
			}
			return l
		},
		MinFrac: map[string]float64{"bad-run-after-good": 0.3, "non-zero-offset": 0.3}})
}

var _ = strings.Repeat
