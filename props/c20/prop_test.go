// C20 — gene models keep exons, introns and coding regions as exact partitions.
//
// Oracle: a list-of-spans model of the exon set, sums and products along the
// location chain, all computed here.
package c20

import (
	"fmt"
	"os"
	"sort"
	"testing"

	"github.com/biogo/biogo/feat"
	"github.com/biogo/biogo/feat/gene"
	"pgregory.net/rapid"

	"verif/internal/vlib"
)

func TestMain(m *testing.M) { vlib.Main(m, "C20"); os.Exit(0) }

type span struct {
	Off     int  `json:"off"`
	Len     int  `json:"len"`
	Foreign bool `json:"foreign,omitempty"` // located on another transcript
	NoLoc   bool `json:"no_loc,omitempty"`  // located on no transcript at all (nil Transcript)
}

// loc codes where a span lies: 0 the transcript under test, 1 another transcript, 2 nowhere.
func (s span) loc() int {
	switch {
	case s.NoLoc:
		return 2
	case s.Foreign:
		return 1
	}
	return 0
}

func (s span) end() int { return s.Off + s.Len }

type op struct {
	Kind  string `json:"kind"` // set | add
	Exons []span `json:"exons"`
	Spare int    `json:"spare"` // add: spare capacity of the slice Add is called on (-1: the transcript's own slice)
}

type regionSpec struct {
	Offset   int  `json:"offset"`
	Orient   int8 `json:"orient"`
	Orienter bool `json:"orienter"`
}

type geneCase struct {
	Coding     bool         `json:"coding"`
	TOffset    int          `json:"t_offset"`
	TOrient    int8         `json:"t_orient"`
	GOffset    int          `json:"g_offset"`
	GOrient    int8         `json:"g_orient"`
	Regions    []regionSpec `json:"regions"`
	ChromStart int          `json:"chrom_start"`
	Ops        []op         `json:"ops"`
	Cs         int          `json:"cds_start_sel"`
	Ce         int          `json:"cds_end_sel"`
	Pos        int          `json:"pos"`
	// FOrient: orientation of a feature the caller puts on the transcript (a gene.TranscriptFeature built as a
	// struct value, as UTR5/CDS/UTR3 are built by the package): one more level of the nesting
	FOrient int8 `json:"f_orient"`
}

// generic location features -------------------------------------------------

type chrom struct {
	name  string
	start int
}

func (c *chrom) Start() int             { return c.start }
func (c *chrom) End() int               { return c.start + 1000000 }
func (c *chrom) Len() int               { return 1000000 }
func (c *chrom) Name() string           { return c.name }
func (c *chrom) Description() string    { return "chrom" }
func (c *chrom) Location() feat.Feature { return nil }

type plainRegion struct {
	off int
	loc feat.Feature
}

func (r *plainRegion) Start() int             { return r.off }
func (r *plainRegion) End() int               { return r.off + 100000 }
func (r *plainRegion) Len() int               { return 100000 }
func (r *plainRegion) Name() string           { return "plain" }
func (r *plainRegion) Description() string    { return "region" }
func (r *plainRegion) Location() feat.Feature { return r.loc }

type orientedRegion struct {
	plainRegion
	ori feat.Orientation
}

func (r *orientedRegion) Orientation() feat.Orientation { return r.ori }

// model ---------------------------------------------------------------------

func sortedCopy(s []span) []span {
	c := append([]span(nil), s...)
	sort.SliceStable(c, func(i, j int) bool { return c[i].Off < c[j].Off })
	return c
}

// addAccepts mirrors the documented contract of Exons.Add: sorted,
// non-overlapping, one common location (which must equal the old location
// when the old slice is not empty).
func addAccepts(old, add []span) ([]span, bool) {
	all := sortedCopy(append(append([]span(nil), old...), add...))
	for i := 1; i < len(all); i++ {
		if all[i].Off < all[i-1].end() {
			return nil, false
		}
		if all[i].loc() != all[i-1].loc() {
			return nil, false
		}
	}
	return all, true
}

func setAccepts(ex []span) ([]span, bool) {
	all, ok := addAccepts(nil, ex)
	if !ok || len(all) == 0 || all[0].loc() != 0 || all[0].Off != 0 {
		return nil, false
	}
	return all, true
}

type world struct {
	chrom   *chrom
	chain   []feat.Feature // from the gene's location up to the chromosome
	g       *gene.Gene
	t       gene.Transcript
	ct      *gene.CodingTranscript
	foreign gene.Transcript
}

func buildWorld(c geneCase) *world {
	w := &world{chrom: &chrom{name: "chr", start: c.ChromStart}}
	var loc feat.Feature = w.chrom
	w.chain = []feat.Feature{w.chrom}
	for i := len(c.Regions) - 1; i >= 0; i-- {
		r := c.Regions[i]
		var f feat.Feature
		if r.Orienter {
			f = &orientedRegion{plainRegion{r.Offset, loc}, feat.Orientation(r.Orient)}
		} else {
			f = &plainRegion{r.Offset, loc}
		}
		w.chain = append([]feat.Feature{f}, w.chain...)
		loc = f
	}
	w.g = &gene.Gene{ID: "g", Chrom: loc, Offset: c.GOffset, Orient: feat.Orientation(c.GOrient)}
	if c.Coding {
		w.ct = &gene.CodingTranscript{ID: "t", Loc: w.g, Offset: c.TOffset, Orient: feat.Orientation(c.TOrient)}
		w.t = w.ct
	} else {
		w.t = &gene.NonCodingTranscript{ID: "t", Loc: w.g, Offset: c.TOffset, Orient: feat.Orientation(c.TOrient)}
	}
	w.foreign = &gene.NonCodingTranscript{ID: "other", Loc: w.g}
	return w
}

func (w *world) exon(s span) gene.Exon {
	t := w.t
	if s.Foreign {
		t = w.foreign
	}
	if s.NoLoc {
		t = nil
	}
	return gene.Exon{Transcript: t, Offset: s.Off, Length: s.Len}
}

func (w *world) exons(ss []span) []gene.Exon {
	out := make([]gene.Exon, len(ss))
	for i, s := range ss {
		out[i] = w.exon(s)
	}
	return out
}

func spansOf(w *world, ex gene.Exons) []span {
	out := make([]span, len(ex))
	for i, e := range ex {
		out[i] = span{Off: e.Offset, Len: e.Length, Foreign: e.Transcript != w.t}
	}
	return out
}

func sameSpans(a, b []span) bool {
	if len(a) != len(b) {
		return false
	}
	for i := range a {
		if a[i] != b[i] {
			return false
		}
	}
	return true
}

func check(c geneCase) *vlib.Failure {
	w := buildWorld(c)
	var model []span
	for oi, o := range c.Ops {
		if o.Kind == "flip-transcript" || o.Kind == "flip-gene" {
			// re-orient the transcript or the gene between updates: everything derived from the
			// orientation must follow
			if o.Kind == "flip-transcript" {
				c.TOrient = -c.TOrient
				switch t := w.t.(type) {
				case *gene.CodingTranscript:
					t.Orient = feat.Orientation(c.TOrient)
				case *gene.NonCodingTranscript:
					t.Orient = feat.Orientation(c.TOrient)
				}
			} else {
				if c.GOrient == 0 {
					c.GOrient = 1
				} else {
					c.GOrient = -c.GOrient
				}
				w.g.Orient = feat.Orientation(c.GOrient)
			}
			if f := checkTiling(w, c, model); f != nil {
				f.Msg = fmt.Sprintf("after op %d (%s): %s", oi, o.Kind, f.Msg)
				return f
			}
			continue
		}
		before := spansOf(w, w.t.Exons())
		if !sameSpans(before, model) {
			return vlib.Failf("model-divergence", "before op %d: transcript holds %v, model %v", oi, before, model)
		}
		switch o.Kind {
		case "set":
			want, ok := setAccepts(o.Exons)
			buf := w.exons(o.Exons)
			err := w.t.SetExons(buf...)
			scribble(w, buf) // the caller's slice is the caller's: what it does with it later is not the transcript's business
			if ok != (err == nil) {
				return vlib.Failf("set-acceptance", "op %d: SetExons(%v) returned %v, contract says accepted=%v", oi, o.Exons, err, ok)
			}
			if ok {
				model = want
			}
		case "add":
			var s gene.Exons
			if o.Spare < 0 {
				s = w.t.Exons()
			} else {
				cur := w.t.Exons()
				s = make(gene.Exons, len(cur), len(cur)+o.Spare)
				copy(s, cur)
			}
			held := spansOf(w, s)
			want, ok := addAccepts(model, o.Exons)
			buf := w.exons(o.Exons)
			res, err := s.Add(buf...)
			scribble(w, buf)
			if ok != (err == nil) {
				return vlib.Failf("add-acceptance", "op %d: %v.Add(%v) returned %v, contract says accepted=%v", oi, held, o.Exons, err, ok)
			}
			if !ok {
				if got := spansOf(w, res); !sameSpans(got, held) {
					return vlib.Failf("rejected-add-returned-slice", "op %d: rejected Add(%v) on %v (spare capacity %d) returned %v instead of the old slice", oi, o.Exons, held, o.Spare, got)
				}
				if got := spansOf(w, s); !sameSpans(got, held) {
					return vlib.Failf("rejected-add-mutates", "op %d: rejected Add(%v) (spare capacity %d) changed the receiver from %v to %v", oi, o.Exons, o.Spare, held, got)
				}
			} else {
				if got := spansOf(w, res); !sameSpans(got, want) {
					return vlib.Failf("add-result", "op %d: Add(%v) on %v returned %v want %v", oi, o.Exons, held, got, want)
				}
				// install the result through SetExons
				w2, ok2 := setAccepts(want)
				err := w.t.SetExons(res...)
				scribble(w, res)
				if ok2 != (err == nil) {
					return vlib.Failf("set-acceptance", "op %d: SetExons(result of Add %v) returned %v, contract says accepted=%v", oi, want, err, ok2)
				}
				if ok2 {
					model = w2
				}
			}
		}
		after := spansOf(w, w.t.Exons())
		if !sameSpans(after, model) {
			kind := "exon-set"
			if sameSpans(before, model) {
				kind = "rejected-update-changes-exons"
			}
			return vlib.Failf(kind, "after op %d (%s %v spare %d): transcript holds %v, expected %v (before: %v)", oi, o.Kind, o.Exons, o.Spare, after, model, before)
		}
		if f := checkTiling(w, c, model); f != nil {
			f.Msg = fmt.Sprintf("after op %d: %s", oi, f.Msg)
			return f
		}
	}
	return checkNesting(w, c, model)
}

// scribble overwrites every element of a slice the harness passed to the
// library with an exon that overlaps everything, and reverses nothing else:
// a library that kept the caller's slice instead of a copy now holds garbage.
func scribble(w *world, buf []gene.Exon) {
	for i := range buf {
		buf[i] = w.exon(span{Off: 0, Len: 7777 + i})
	}
}

func checkTiling(w *world, c geneCase, model []span) *vlib.Failure {
	ex := w.t.Exons()
	in := w.t.Introns()
	if len(ex) == 0 {
		if len(in) != 0 || w.t.Len() != 0 {
			return vlib.Failf("tiling", "no exons but %d introns, Len %d", len(in), w.t.Len())
		}
		return nil
	}
	// the introns worked out from the exon set alone are the transcript's introns, on the transcript
	if viaExons := ex.Introns(); len(viaExons) != len(in) {
		return vlib.Failf("tiling", "Exons().Introns() gives %d introns, Introns() %d", len(viaExons), len(in))
	} else {
		for i := range in {
			a, b := viaExons[i], in[i]
			if a.Start() != b.Start() || a.End() != b.End() || a.Location() != b.Location() {
				return vlib.Failf("tiling", "intron %d: Exons().Introns() gives [%d,%d) on %v, Introns() [%d,%d) on %v", i, a.Start(), a.End(), a.Location(), b.Start(), b.End(), b.Location())
			}
		}
	}
	if len(in) != len(ex)-1 {
		return vlib.Failf("tiling", "%d exons and %d introns", len(ex), len(in))
	}
	pos, spliced := 0, 0
	for i, e := range ex {
		if e.Start() != pos {
			return vlib.Failf("tiling", "exon %d starts at %d, the preceding piece ends at %d (exons %v)", i, e.Start(), pos, model)
		}
		if e.Len() < 0 || e.Len() == 0 && len(model) > i && model[i].Len != 0 || e.End() != e.Start()+e.Len() {
			return vlib.Failf("tiling", "exon %d has Start/End/Len %d/%d/%d", i, e.Start(), e.End(), e.Len())
		}
		if e.Location() != feat.Feature(w.t) {
			return vlib.Failf("tiling", "exon %d is not located on the transcript", i)
		}
		pos = e.End()
		spliced += e.Len()
		if i < len(in) {
			n := in[i]
			if n.Start() != pos || n.Len() < 0 || n.End() != n.Start()+n.Len() || n.End() != ex[i+1].Start() {
				return vlib.Failf("tiling", "intron %d is [%d,%d) between exon ending %d and exon starting %d", i, n.Start(), n.End(), pos, ex[i+1].Start())
			}
			if n.Location() != feat.Feature(w.t) {
				return vlib.Failf("tiling", "intron %d is not located on the transcript", i)
			}
			pos = n.End()
		}
	}
	if w.t.Len() != pos || w.t.Start() != c.TOffset || w.t.End() != c.TOffset+pos {
		return vlib.Failf("tiling", "transcript Start/End/Len = %d/%d/%d, pieces end at %d, offset %d", w.t.Start(), w.t.End(), w.t.Len(), pos, c.TOffset)
	}
	if ex.SplicedLen() != spliced {
		return vlib.Failf("tiling", "SplicedLen %d want %d", ex.SplicedLen(), spliced)
	}
	if w.ct == nil {
		return nil
	}
	// coding regions
	L := w.t.Len()
	cs := mod(c.Cs, L+1)
	ce := cs + mod(c.Ce, L-cs+1)
	w.ct.CDSstart, w.ct.CDSend = cs, ce
	base := baseOrientation(c)
	if base == 0 {
		return nil // documented: UTR5/UTR3 panic for a transcript without base orientation
	}
	u5, cds, u3 := w.ct.UTR5(), w.ct.CDS(), w.ct.UTR3()
	first, last := u5, u3
	if base < 0 {
		first, last = u3, u5
	}
	if first.Start() != 0 || first.End() != cs || cds.Start() != cs || cds.End() != ce || last.Start() != ce || last.End() != L {
		return vlib.Failf("utr-cds-tiling", "base orientation %d, CDS [%d,%d) of %d: 5'UTR [%d,%d) CDS [%d,%d) 3'UTR [%d,%d) do not tile the transcript in orientation order",
			base, cs, ce, L, u5.Start(), u5.End(), cds.Start(), cds.End(), u3.Start(), u3.End())
	}
	if u5.Len()+cds.Len()+u3.Len() != L {
		return vlib.Failf("utr-cds-tiling", "lengths %d+%d+%d != %d", u5.Len(), cds.Len(), u3.Len(), L)
	}
	tBase, tRef := feat.BaseOrientationOf(w.t)
	for i, f := range []feat.Feature{u5, cds, u3} {
		if f.Location() != feat.Feature(w.t) {
			return vlib.Failf("utr-cds-tiling", "region not located on the transcript")
		}
		// the regions lie forward on their transcript: through them the orientations compose as
		// through the transcript itself
		name := []string{"5'UTR", "CDS", "3'UTR"}[i]
		if o, ok := f.(feat.Orienter); !ok || o.Orientation() != feat.Forward {
			return vlib.Failf("region-orientation", "%s (base orientation %d, CDS [%d,%d) of %d) is not oriented forward on its transcript", name, base, cs, ce, L)
		}
		if got, ref := feat.BaseOrientationOf(f); got != tBase || ref != tRef {
			return vlib.Failf("region-orientation", "BaseOrientationOf(%s) = %d, %v; that of its transcript is %d, %v", name, got, ref, tBase, tRef)
		}
		if got := feat.OrientationWithin(f, w.t); got != feat.Forward {
			return vlib.Failf("region-orientation", "OrientationWithin(%s, transcript) = %d", name, got)
		}
	}
	if w.ct.UTR5start() != u5.Start() || w.ct.UTR5end() != u5.End() || w.ct.UTR3start() != u3.Start() || w.ct.UTR3end() != u3.End() {
		return vlib.Failf("utr-cds-tiling", "UTR shorthand accessors disagree with UTR5()/UTR3()")
	}
	return nil
}

func mod(a, n int) int {
	if n <= 0 {
		return 0
	}
	a %= n
	if a < 0 {
		a += n
	}
	return a
}

// baseOrientation: product of orientations from the transcript upwards until
// a location that is not oriented (documented stop rule of BaseOrientationOf).
func baseOrientation(c geneCase) int {
	o := int(c.TOrient)
	if o == 0 {
		return 0
	}
	if c.GOrient == 0 {
		return o
	}
	o *= int(c.GOrient)
	for _, r := range c.Regions {
		if !r.Orienter || r.Orient == 0 {
			return o
		}
		o *= int(r.Orient)
	}
	return o
}

func checkNesting(w *world, c geneCase, model []span) *vlib.Failure {
	// gene features: accepted iff the transcript starts at 0 on the gene
	err := w.g.SetFeatures(w.t)
	if (c.TOffset == 0) != (err == nil) {
		return vlib.Failf("gene-setfeatures", "SetFeatures(transcript at offset %d) returned %v", c.TOffset, err)
	}
	if err == nil {
		if w.g.Len() != w.t.End() || len(w.g.Features()) != 1 {
			return vlib.Failf("gene-setfeatures", "gene Len %d, transcript End %d, %d features", w.g.Len(), w.t.End(), len(w.g.Features()))
		}
		// rejected updates leave the feature set as it was
		other := &gene.NonCodingTranscript{ID: "x", Loc: w.chrom}
		if err := w.g.SetFeatures(w.t, other); err == nil {
			return vlib.Failf("gene-setfeatures", "a feature located elsewhere was accepted")
		}
		shifted := &gene.NonCodingTranscript{ID: "y", Loc: w.g, Offset: 5}
		if err := w.g.SetFeatures(shifted); err == nil {
			return vlib.Failf("gene-setfeatures", "features without a zero start were accepted")
		}
		if fs := w.g.Features(); len(fs) != 1 || fs[0] != feat.Feature(w.t) || w.g.Len() != w.t.End() {
			return vlib.Failf("gene-rejected-update", "rejected SetFeatures changed the gene's features or length")
		}
	}
	// positions and orientations through the chain exon -> transcript -> gene -> regions -> chromosome
	var f0 feat.Feature = w.t
	sum := 0
	exOff := 0
	if len(model) > 0 {
		e := w.t.Exons()[mod(c.Pos, len(model))]
		f0 = e
		exOff = e.Start()
	}
	chainStarts := []int{c.TOffset, c.GOffset}
	for _, r := range c.Regions {
		chainStarts = append(chainStarts, r.Offset)
	}
	chainStarts = append(chainStarts, c.ChromStart)
	for _, s := range chainStarts {
		sum += s
	}
	p := mod(c.Pos, 1000)
	got, root := feat.BasePositionOf(f0, p)
	if got != p+exOff+sum || root != feat.Feature(w.chrom) {
		return vlib.Failf("base-position", "BasePositionOf(%d) = %d, %v; want %d on the chromosome (offsets exon %d chain %v)", p, got, root, p+exOff+sum, exOff, chainStarts)
	}
	// PositionWithin for every reference along the chain
	refs := append([]feat.Feature{w.t, w.g}, w.chain...)
	partial := p + exOff
	if len(model) == 0 {
		partial = p
	}
	for i, ref := range refs {
		if i == 0 && len(model) == 0 {
			// f0 is the transcript itself
		}
		pos, ok := feat.PositionWithin(f0, ref, p)
		want := partial
		if !(len(model) == 0 && i == 0) {
			// offsets of everything strictly below ref
			want = p
			if len(model) > 0 {
				want += exOff
			}
			for j := 0; j < i; j++ {
				want += chainStarts[j]
			}
		}
		if !ok || pos != want {
			return vlib.Failf("position-within", "PositionWithin(ref level %d) = %d, %v want %d", i, pos, ok, want)
		}
	}
	if _, ok := feat.PositionWithin(f0, &chrom{name: "elsewhere"}, p); ok {
		return vlib.Failf("position-within", "PositionWithin reports a position relative to an unrelated feature")
	}
	// orientations
	if len(model) > 0 {
		wantBase := baseOrientation(c) // exon orientation is Forward
		gotO, _ := feat.BaseOrientationOf(f0)
		if c.TOrient != 0 && int(gotO) != wantBase {
			return vlib.Failf("base-orientation", "BaseOrientationOf(exon) = %d want %d (t %d g %d regions %v)", gotO, wantBase, c.TOrient, c.GOrient, c.Regions)
		}
	}
	gotT, _ := feat.BaseOrientationOf(w.t)
	if int(gotT) != baseOrientation(c) {
		return vlib.Failf("base-orientation", "BaseOrientationOf(transcript) = %d want %d (t %d g %d regions %v)", gotT, baseOrientation(c), c.TOrient, c.GOrient, c.Regions)
	}
	// OrientationWithin(transcript, ref): product of orientations of transcript .. child of ref,
	// NotOriented as soon as a link is not oriented
	oris := []int{int(c.TOrient), int(c.GOrient)}
	for _, r := range c.Regions {
		if r.Orienter {
			oris = append(oris, int(r.Orient))
		} else {
			oris = append(oris, 0)
		}
	}
	for i := 1; i < len(refs); i++ {
		want := 1
		for j := 0; j < i; j++ {
			want *= oris[j]
		}
		if got := feat.OrientationWithin(w.t, refs[i]); int(got) != want {
			return vlib.Failf("orientation-within", "OrientationWithin(transcript, ref level %d) = %d want %d (orientations %v)", i, got, want, oris)
		}
	}
	// the same two functions asked of every level of the chain (gene, regions, chromosome), not
	// only of the transcript: a level that is not orientable has no orientation, and the
	// reference BaseOrientationOf hands back is the one its documentation names
	for len(oris) < len(refs) {
		oris = append(oris, 0) // the chromosome is not an Orienter
	}
	for i := 1; i < len(refs); i++ {
		wantO, wantRef := 0, refs[len(refs)-1]
		if oris[i] == 0 {
			// "the reference will be the first orientable or last non-nil feature"
			for j := i + 1; j < len(refs); j++ {
				if oris[j] != 0 {
					wantRef = refs[j]
					break
				}
			}
		} else {
			wantO = 1
			k := i
			for ; k < len(refs) && oris[k] != 0; k++ {
				wantO *= oris[k]
			}
			// "the first non-nil, non-orientable feature location", or the top of the chain
			if k < len(refs) {
				wantRef = refs[k]
			}
		}
		gotO, gotRef := feat.BaseOrientationOf(refs[i])
		if int(gotO) != wantO || gotRef != wantRef {
			return vlib.Failf("base-orientation", "BaseOrientationOf(level %d) = %d, %v want %d, %v (orientations %v)", i, gotO, gotRef, wantO, wantRef, oris)
		}
		for j := i; j < len(refs); j++ {
			want := 1
			for k := i; k < j; k++ {
				want *= oris[k]
			}
			if oris[i] == 0 {
				want = 0
			}
			if got := feat.OrientationWithin(refs[i], refs[j]); int(got) != want {
				return vlib.Failf("orientation-within", "OrientationWithin(level %d, level %d) = %d want %d (orientations %v)", i, j, got, want, oris)
			}
		}
	}
	// a feature put on the transcript by the caller is one more level: its own orientation multiplies in
	if tOri := w.t.(feat.Orienter).Orientation(); tOri != feat.NotOriented {
		tf := &gene.TranscriptFeature{Transcript: w.t, Offset: 0, Length: 1, Orient: feat.Orientation(c.FOrient), FeatName: "user"}
		for i, ref := range refs {
			want := int(c.FOrient)
			if i > 0 {
				want *= int(feat.OrientationWithin(w.t, ref))
			}
			if got := feat.OrientationWithin(tf, ref); int(got) != want {
				return vlib.Failf("orientation-within", "a feature of orientation %d on the transcript: OrientationWithin(feature, ref level %d) = %d want %d (orientations %v)", c.FOrient, i, got, want, oris)
			}
		}
		tB, tR := feat.BaseOrientationOf(w.t)
		wantO, wantRef := feat.Orientation(c.FOrient)*tB, tR
		if c.FOrient == 0 {
			wantO, wantRef = feat.NotOriented, feat.Feature(w.t) // "the first orientable ... feature"
		}
		if gotO, gotRef := feat.BaseOrientationOf(tf); gotO != wantO || gotRef != wantRef {
			return vlib.Failf("base-orientation", "a feature of orientation %d on the transcript: BaseOrientationOf = %d, %v want %d, %v (transcript: %d, %v)", c.FOrient, gotO, gotRef, wantO, wantRef, tB, tR)
		}
		// the chain may also end at the gene: a gene that was given no chromosome still has its orientation
		g2 := &gene.Gene{ID: "g2", Orient: feat.Orientation(c.GOrient)}
		t2 := &gene.CodingTranscript{ID: "t2", Loc: g2, Orient: tOri}
		want2 := tOri
		if c.GOrient != 0 {
			want2 *= feat.Orientation(c.GOrient)
		}
		if gotO, gotRef := feat.BaseOrientationOf(t2); gotO != want2 || gotRef != feat.Feature(g2) {
			return vlib.Failf("base-orientation", "transcript (%d) on a gene (%d) without a chromosome: BaseOrientationOf = %d, %v want %d and the gene", tOri, c.GOrient, gotO, gotRef, want2)
		}
		if len(model) > 0 {
			var ex []gene.Exon
			for _, sp := range model {
				ex = append(ex, gene.Exon{Transcript: t2, Offset: sp.Off, Length: sp.Len})
			}
			if err := t2.SetExons(ex...); err != nil {
				return vlib.Failf("set-acceptance", "SetExons(%v) on a transcript whose gene has no chromosome: %v", model, err)
			}
			L := t2.Len()
			cs := mod(c.Cs, L+1)
			ce := cs + mod(c.Ce, L-cs+1)
			t2.CDSstart, t2.CDSend = cs, ce
			u5, u3 := t2.UTR5(), t2.UTR3()
			first, last := u5, u3
			if want2 < 0 {
				first, last = u3, u5
			}
			if first.Start() != 0 || first.End() != cs || last.Start() != ce || last.End() != L {
				return vlib.Failf("utr-cds-tiling", "transcript (%d) on a gene (%d) without a chromosome, CDS [%d,%d) of %d: 5'UTR [%d,%d) and 3'UTR [%d,%d) are not in orientation order", tOri, c.GOrient, cs, ce, L, u5.Start(), u5.End(), u3.Start(), u3.End())
			}
		}
	}
	if got := feat.OrientationWithin(w.t, nil); got != feat.NotOriented {
		return vlib.Failf("orientation-within", "OrientationWithin(transcript, nil) = %d", got)
	}
	// 1-based / 0-based conversions
	// (also far beyond the 32-bit range, on either side of it and of zero)
	for _, v := range []int{c.Pos, -c.Pos, c.TOffset, c.GOffset - 7, 0, -1, 1,
		1<<31 + c.Pos, 1<<31 - 1 - c.Pos%3, 3<<31 + c.Pos, 1<<32 + c.Pos, (c.Pos + 1) << 33, 1<<62 + c.Pos,
		-(1 << 31) - c.Pos, -(1 << 31) - 1 - c.Pos, -(3 << 31) - c.Pos, -(1 << 62) - c.Pos} {
		if got := feat.OneToZero(feat.ZeroToOne(v)); got != v {
			return vlib.Failf("index-conversion", "OneToZero(ZeroToOne(%d)) = %d", v, got)
		}
		if v != 0 {
			if got := feat.ZeroToOne(feat.OneToZero(v)); got != v {
				return vlib.Failf("index-conversion", "ZeroToOne(OneToZero(%d)) = %d", v, got)
			}
		}
		if v >= 0 && feat.ZeroToOne(v) != v+1 {
			return vlib.Failf("index-conversion", "ZeroToOne(%d) = %d", v, feat.ZeroToOne(v))
		}
	}
	return nil
}

// generator (simulates the model so that ops are meaningful) -------------------

func genLayout(t *rapid.T, label string) []span {
	L := rapid.IntRange(1, 200).Draw(t, label+"-len")
	n := rapid.IntRange(1, 8).Draw(t, label+"-nexons")
	// 2n-1 pieces alternate exon/intron; introns may have zero length (abutting exons)
	var out []span
	pos := 0
	for i := 0; i < n && pos < L; i++ {
		l := rapid.IntRange(1, max(1, (L-pos)/(n-i))).Draw(t, label+"-elen")
		out = append(out, span{Off: pos, Len: l})
		pos += l
		if rapid.IntRange(0, 3).Draw(t, label+"-abut") > 0 {
			pos += rapid.IntRange(1, 20).Draw(t, label+"-ilen")
		}
	}
	return out
}

func gen(t *rapid.T) geneCase {
	c := geneCase{Coding: rapid.Bool().Draw(t, "coding"),
		TOffset: rapid.SampledFrom([]int{0, 0, 0, 3, 17, 100}).Draw(t, "t-offset"), TOrient: int8(rapid.SampledFrom([]int{1, -1}).Draw(t, "t-orient")),
		GOffset: rapid.IntRange(0, 5000).Draw(t, "g-offset"), GOrient: int8(rapid.SampledFrom([]int{1, -1, 1, -1, 0}).Draw(t, "g-orient")),
		ChromStart: rapid.SampledFrom([]int{0, 0, 10}).Draw(t, "chrom-start"),
		Cs:         rapid.IntRange(0, 300).Draw(t, "cs"), Ce: rapid.IntRange(0, 300).Draw(t, "ce"), Pos: rapid.IntRange(0, 999).Draw(t, "pos")}
	c.FOrient = int8(rapid.SampledFrom([]int{1, -1, 0}).Draw(t, "f-orient"))
	nr := rapid.IntRange(0, 3).Draw(t, "nregions")
	for i := 0; i < nr; i++ {
		c.Regions = append(c.Regions, regionSpec{Offset: rapid.IntRange(0, 1000).Draw(t, "r-offset"),
			Orient: int8(rapid.SampledFrom([]int{1, -1, 1, -1, 0}).Draw(t, "r-orient")), Orienter: rapid.IntRange(0, 4).Draw(t, "r-orienter") > 0})
	}
	var model []span
	nops := rapid.IntRange(1, 6).Draw(t, "nops")
	for i := 0; i < nops; i++ {
		var o op
		if len(model) == 0 || rapid.IntRange(0, 2).Draw(t, "op-kind") == 0 {
			o.Kind = "set"
			o.Exons = genLayout(t, "set")
			switch rapid.IntRange(0, 7).Draw(t, "set-break") {
			case 0: // overlap
				if len(o.Exons) >= 2 {
					k := rapid.IntRange(1, len(o.Exons)-1).Draw(t, "ov-k")
					o.Exons[k].Off = o.Exons[k-1].Off + rapid.IntRange(0, o.Exons[k-1].Len-1).Draw(t, "ov-into")
				}
			case 1: // foreign location
				if k := rapid.IntRange(0, len(o.Exons)-1).Draw(t, "foreign-k"); rapid.Bool().Draw(t, "foreign-is-nowhere") {
					o.Exons[k].NoLoc = true
				} else {
					o.Exons[k].Foreign = true
				}
			case 2: // no zero start (shifted right, or left into negative offsets)
				d := rapid.SampledFrom([]int{1, 2, 5, 9, -1, -2, -7}).Draw(t, "shift")
				for k := range o.Exons {
					o.Exons[k].Off += d
				}
			case 3: // overlap by an exon of no length, strictly inside another one
				if e := o.Exons[rapid.IntRange(0, len(o.Exons)-1).Draw(t, "empty-in")]; e.Len >= 2 {
					o.Exons = append(o.Exons, span{Off: e.Off + rapid.IntRange(1, e.Len-1).Draw(t, "empty-at")})
				}
			}
			o.Exons = rapid.Permutation(o.Exons).Draw(t, "set-order")
			if want, ok := setAccepts(o.Exons); ok {
				model = want
			}
		} else {
			o.Kind = "add"
			o.Spare = rapid.SampledFrom([]int{-1, 0, 1, 2, 4, 8}).Draw(t, "spare")
			n := rapid.IntRange(1, 3).Draw(t, "nadd")
			end := model[len(model)-1].end()
			for k := 0; k < n; k++ {
				var s span
				switch rapid.IntRange(0, 6).Draw(t, "add-class") {
				case 6: // an exon of no length strictly inside an existing one: it overlaps
					e := model[rapid.IntRange(0, len(model)-1).Draw(t, "empty-exon")]
					s = span{Off: e.Off + 1, Len: 1}
					if e.Len >= 2 {
						s = span{Off: e.Off + rapid.IntRange(1, e.Len-1).Draw(t, "empty-off")}
					}
				case 0, 1: // beyond the current end
					s = span{Off: end + rapid.IntRange(0, 30).Draw(t, "beyond"), Len: rapid.IntRange(1, 20).Draw(t, "alen")}
					end = s.end()
				case 2: // inside an intron, if there is one
					s = span{Off: end + 1, Len: 1}
					for g := 1; g < len(model); g++ {
						if gap := model[g].Off - model[g-1].end(); gap > 0 {
							off := model[g-1].end() + rapid.IntRange(0, gap-1).Draw(t, "gap-off")
							s = span{Off: off, Len: rapid.IntRange(1, model[g].Off-off).Draw(t, "gap-len")}
							break
						}
					}
					if s.Off == end+1 {
						end = s.end()
					}
				case 3: // overlapping an existing exon, sorting before the last one
					e := model[rapid.IntRange(0, len(model)-1).Draw(t, "ov-exon")]
					s = span{Off: e.Off + rapid.IntRange(0, e.Len-1).Draw(t, "ov-off"), Len: rapid.IntRange(1, 10).Draw(t, "ov-len")}
				case 4: // foreign
					s = span{Off: end + 5, Len: 3, Foreign: true}
					if rapid.Bool().Draw(t, "add-foreign-is-nowhere") {
						s = span{Off: end + 5, Len: 3, NoLoc: true}
					}
				default:
					s = span{Off: rapid.IntRange(0, end+10).Draw(t, "any-off"), Len: rapid.IntRange(1, 15).Draw(t, "any-len")}
				}
				o.Exons = append(o.Exons, s)
			}
			if want, ok := addAccepts(model, o.Exons); ok {
				if w2, ok2 := setAccepts(want); ok2 {
					model = w2
				}
			}
		}
		c.Ops = append(c.Ops, o)
		if len(model) > 0 && rapid.IntRange(0, 4).Draw(t, "flip") == 0 {
			c.Ops = append(c.Ops, op{Kind: rapid.SampledFrom([]string{"flip-transcript", "flip-gene"}).Draw(t, "flip-kind")})
		}
	}
	if len(model) > 0 && rapid.IntRange(0, 4).Draw(t, "empty-exon-accepted") == 0 {
		// last of all (nothing is added after it, so no later exon can start where it lies): an exon of no
		// length beyond the end or strictly inside an intron - it overlaps nothing and is accepted
		end := model[len(model)-1].end()
		s := span{Off: end + rapid.IntRange(1, 10).Draw(t, "empty-beyond")}
		for g := 1; g < len(model); g++ {
			if gap := model[g].Off - model[g-1].end(); gap >= 2 && rapid.Bool().Draw(t, "empty-in-gap") {
				s = span{Off: model[g-1].end() + rapid.IntRange(1, gap-1).Draw(t, "empty-gap-off")}
				break
			}
		}
		c.Ops = append(c.Ops, op{Kind: "add", Exons: []span{s}, Spare: rapid.SampledFrom([]int{-1, 0, 2}).Draw(t, "empty-spare")})
	}
	return c
}

func classes(c geneCase) []string {
	var l []string
	var model []span
	maxExons := 0
	nt := false
	for _, o := range c.Ops {
		switch o.Kind {
		case "flip-transcript", "flip-gene":
			if c.Coding {
				l = append(l, "re-oriented-between-queries")
			}
		case "set":
			if want, ok := setAccepts(o.Exons); ok {
				model = want
				l = append(l, "set-accepted")
			} else {
				l = append(l, "set-rejected")
			}
		case "add":
			if want, ok := addAccepts(model, o.Exons); ok {
				l = append(l, "add-accepted")
				if w2, ok2 := setAccepts(want); ok2 {
					model = w2
				}
			} else {
				l = append(l, "add-rejected")
				if o.Spare != 0 {
					l = append(l, "add-rejected/spare-capacity")
					// does a new exon sort before an existing one?
					for _, e := range o.Exons {
						if len(model) > 0 && e.Off < model[len(model)-1].Off && o.Spare > 0 {
							l = append(l, "add-rejected/spare-capacity/sorts-before-existing")
							nt = true
						}
					}
				}
			}
		}
		if len(model) > maxExons {
			maxExons = len(model)
		}
	}
	for _, o := range c.Ops {
		for _, e := range o.Exons {
			if e.Len == 0 {
				l = append(l, "exon-of-no-length-inside-another")
			}
			if e.NoLoc {
				l = append(l, "exon-located-nowhere")
			}
		}
	}
	if maxExons >= 3 {
		l = append(l, "exons>=3")
		nt = true
	}
	if c.Coding {
		l = append(l, "coding")
	}
	if len(c.Regions) > 0 {
		l = append(l, "extra-nesting")
	}
	if baseOrientation(c) < 0 {
		l = append(l, "reverse-base-orientation")
	}
	seen := map[string]bool{}
	var out []string
	for _, s := range l {
		if !seen[s] {
			seen[s] = true
			out = append(out, s)
		}
	}
	if nt {
		out = append(out, vlib.NT)
	}
	return out
}

func TestGeneModels(t *testing.T) {
	vlib.Run(t, vlib.Prop[geneCase]{Name: "gene-model-histories", Checks: 5000, Thorough: 480000, Gen: gen, Check: check, Classes: classes,
		MinFrac: map[string]float64{"exons>=3": 0.3, "add-rejected/spare-capacity/sorts-before-existing": 0.03, "set-rejected": 0.15, "coding": 0.3, "reverse-base-orientation": 0.2, "re-oriented-between-queries": 0.08, "exon-of-no-length-inside-another": 0.1}})
}

// deep chains: positions compose additively up to the documented limit of 1000 links
type chainCase struct {
	Depth   int   `json:"depth"`
	Offsets []int `json:"offsets"`
	Orients []int `json:"orients"`
}

func TestDeepChains(t *testing.T) {
	vlib.Run(t, vlib.Prop[chainCase]{Name: "deep-location-chains", Checks: 300, Thorough: 20000,
		Gen: func(t *rapid.T) chainCase {
			return chainCase{Depth: rapid.OneOf(rapid.IntRange(1, 60), rapid.SampledFrom([]int{998, 999, 1000, 1001})).Draw(t, "depth"),
				Offsets: rapid.SliceOfN(rapid.IntRange(-50, 500), 1, 7).Draw(t, "offsets"), Orients: rapid.SliceOfN(rapid.SampledFrom([]int{1, -1}), 1, 5).Draw(t, "orients")}
		},
		Check: func(c chainCase) *vlib.Failure {
			var loc feat.Feature
			sum, prod := 0, 1
			var fs []feat.Feature
			for i := 0; i < c.Depth; i++ {
				off, ori := c.Offsets[i%len(c.Offsets)], c.Orients[i%len(c.Orients)]
				f := &orientedRegion{plainRegion{off, loc}, feat.Orientation(ori)}
				fs = append(fs, f)
				loc = f
				sum += off
				prod *= ori
			}
			leaf, root := fs[len(fs)-1], fs[0]
			if c.Depth > 1000 {
				// 1000 links between the leaf and the root: the documented limit of OrientationWithin
				// ("deeper than 1000 links" panics; exactly 1000 is still answered). The other three
				// functions count one step more on the unchanged tree and are asked up to 999 links.
				if got := feat.OrientationWithin(leaf, root); int(got) != prod*c.Orients[0] {
					return vlib.Failf("orientation-within", "%d links: OrientationWithin(root) = %d want %d", c.Depth-1, got, prod*c.Orients[0])
				}
				return nil
			}
			got, r := feat.BasePositionOf(leaf, 5)
			if got != 5+sum || r != root {
				return vlib.Failf("base-position", "depth %d: BasePositionOf = %d want %d", c.Depth, got, 5+sum)
			}
			pos, ok := feat.PositionWithin(leaf, root, 5)
			if !ok || pos != 5+sum-c.Offsets[0] {
				return vlib.Failf("position-within", "depth %d: PositionWithin(root) = %d, %v want %d", c.Depth, pos, ok, 5+sum-c.Offsets[0])
			}
			o, r2 := feat.BaseOrientationOf(leaf)
			if int(o) != prod || r2 != root {
				return vlib.Failf("base-orientation", "depth %d: BaseOrientationOf = %d want %d", c.Depth, o, prod)
			}
			if got := feat.OrientationWithin(leaf, root); int(got) != prod*c.Orients[0] {
				return vlib.Failf("orientation-within", "depth %d: OrientationWithin(root) = %d want %d", c.Depth, got, prod*c.Orients[0])
			}
			return nil
		},
		Classes: func(c chainCase) []string {
			if c.Depth >= 3 {
				return []string{vlib.NT}
			}
			return nil
		}})
}
