package c03

import (
	"bytes"
	"fmt"
	"os"
	"strings"
	"testing"

	"pgregory.net/rapid"

	"verif/internal/iogen"
	"verif/internal/vlib"
)

func TestMain(m *testing.M) { vlib.Main(m, "C03"); os.Exit(0) }

// ---- (a) arbitrary bytes -----------------------------------------------------

type bytesCase struct {
	Reader string `json:"reader"`
	Data   []byte `json:"data"`
	Text   string `json:"text_preview,omitempty"`
}

func checkBytes(c bytesCase) *vlib.Failure {
	_, f := RunTotal(c.Reader, c.Data)
	return f
}

var fragments = []string{"\n", "\r\n", "\t", " ", ">", ">>", "@", "+", "#", "##", ".", "-", "0", "1", "chr1", "a", "ACGT", "IIII", "##gff-version", "##gff-version 2", "##sequence-region",
	"##DNA", "##end-DNA", "##Type", "##date", ";", ",", "\x00", "\xff", "\xa0", "\x85", " \xa0", "\t\x85\xa0", ">id \xa0", "@id \x85", "\xc2\xa0", "\u2028", "9223372036854775808", "+\n", "@a\nAC\n+\nII\n", ">a\nAC\n", "c\t1\t2\tn\t0\t+\t1\t2\t0\t1\t1\t0\n", "s\tp\tf\t1\t2\t.\t+\t.\tT v\n"}

func genBytes(t *rapid.T) bytesCase {
	c := bytesCase{Reader: rapid.SampledFrom(append(append(append([]string{}, Readers...), FastaVariants...), FastqVariants...)).Draw(t, "reader")}
	n := rapid.IntRange(0, 40).Draw(t, "nfrag")
	var b bytes.Buffer
	for i := 0; i < n; i++ {
		switch rapid.IntRange(0, 19).Draw(t, "frag-kind") {
		case 0, 1, 2, 3, 4:
			b.Write(rapid.SliceOfN(rapid.Byte(), 0, 6).Draw(t, "raw"))
		case 6:
			// a complete FASTQ record whose quality line holds arbitrary bytes (same length as the sequence)
			n := rapid.IntRange(1, 8).Draw(t, "rec-len")
			b.WriteString("@r\n" + strings.Repeat("A", n) + "\n+\n")
			for k := 0; k < n; k++ {
				q := byte(rapid.IntRange(0, 255).Draw(t, "qbyte"))
				if q == '\n' || q == '\r' || q == ' ' || q == '\t' || q == '\v' || q == '\f' {
					q = 0xc5
				}
				b.WriteByte(q)
			}
			b.WriteString("\n")
		case 5:
			// a run long enough to cross the readers' 4096-byte line buffer
			ch := rapid.SampledFrom([]byte{'A', 'I', '\t', '#', '9'}).Draw(t, "long-ch")
			b.Write(bytes.Repeat([]byte{ch}, rapid.SampledFrom([]int{4095, 4096, 4097, 8192, 9000}).Draw(t, "long-n")))
		default:
			b.WriteString(rapid.SampledFrom(fragments).Draw(t, "frag"))
		}
	}
	c.Data = b.Bytes()
	c.Text = fmt.Sprintf("%.200q", c.Data)
	return c
}

func TestArbitraryBytes(t *testing.T) {
	vlib.Run(t, vlib.Prop[bytesCase]{Name: "arbitrary-bytes", Checks: 4000, Thorough: 400000, Gen: genBytes, Check: checkBytes,
		Classes: func(c bytesCase) []string {
			l := []string{"reader-" + c.Reader}
			if CountLines(c.Data) >= 2 {
				l = append(l, vlib.NT)
			}
			return l
		}})
}

// ---- (b) valid files put through a mutation grammar ---------------------------

type mut struct {
	Op   string `json:"op"`
	Line int    `json:"line"`
	Col  int    `json:"col"`
	Arg  int    `json:"arg"`
}

type mutCase struct {
	Format string         `json:"format"` // fasta fastq bed gff
	Seq    *iogen.SeqFile `json:"seq,omitempty"`
	Bed    *iogen.BedFile `json:"bed,omitempty"`
	Gff    *iogen.GffFile `json:"gff,omitempty"`
	Muts   []mut          `json:"muts"`
}

var hostileFields = []string{"-1", "-7", "9223372036854775807", "-9223372036854775808", "2", "255", "256", "0", "-0", "+", ".", "", "0x", "1e3", "9223372036854775808", "-9223372036854775809", "١", "NaN", "Inf", "\x00", "\xff\xfe", "##", "#", ">", "@", "1_0", " 5", "5 ", "++", "x", "1,2", ",", ";", "a b;;c", "\"", "-", "1.5", "\xa0", "\x85", "a \xa0", "\xa0\x85"}
var hostileLines = []string{"##Type  DNA", "##type  dna", "##Type ", "##Type   ", "##sequence-region  a 1 5", "##sequence-region a  1 5", "##DNA  x", "##gff-version  2", "##date  2012-1-01", "##source-version  x", "##  ", "##gff-version", "##gff-version x", "##gff-version 3", "##gff-version 2", "##sequence-region a", "##sequence-region a 0 5", "##sequence-region a x 5", "##sequence-region a 1 y",
	"##sequence-region", "##DNA", "##DNA x", "##RNA", "##Protein", "##date", "##date notadate", "##date 2012-1-01", "##Type", "##Type DNA", "##", "##end-DNA", "##source-version", "##source-version x", "#", ">", "@", "+", "",
	"\t\t\t\t\t\t\t\t", "a\tb\tc\t1\t2\t.\t+", "a\tb\tc\t1\t2\t.\t+\t.", "a\tb\tc\t0\t2\t.\t+\t.", "a\tb\tc\t1\t2\t.\t+\t.\t9x y", "a\tb\tc\t1\t2\t.\t+\t.\t\t\t\t", "c\t1", "c\t1\t2", "c\t1\t2\tn\t0\t+\t1\t2\t0\t2\t1\t0", "c\t1\t2\tn\t0\t+\t1\t2\t1,2\t1\t1\t0", "@a", "+a", ">x y", "IIII", "ACGT"}

func (c mutCase) base() []byte {
	switch c.Format {
	case "fasta", "fastq":
		return c.Seq.Render(iogen.Layout{})
	case "bed":
		return c.Bed.Text("\n", true)
	default:
		return c.Gff.Text("\n", true)
	}
}

func (c mutCase) readers() []string {
	switch c.Format {
	case "fasta":
		return append([]string{"fasta"}, FastaVariants...)
	case "fastq":
		return append([]string{"fastq"}, FastqVariants...)
	case "bed":
		return []string{"bed3", "bed4", "bed5", "bed6", "bed12"}
	}
	return []string{"gff", "gff-no-time-format"}
}

func applyMuts(data []byte, muts []mut) []byte {
	for _, m := range muts {
		lines := strings.Split(string(data), "\n")
		if len(lines) == 0 {
			lines = []string{""}
		}
		li := mod(m.Line, len(lines))
		cols := strings.Split(lines[li], "\t")
		ci := mod(m.Col, len(cols))
		switch m.Op {
		case "del-col":
			cols = append(cols[:ci:ci], cols[ci+1:]...)
			lines[li] = strings.Join(cols, "\t")
		case "dup-col":
			cols = append(cols[:ci+1], cols[ci:]...)
			lines[li] = strings.Join(cols, "\t")
		case "empty-col":
			cols[ci] = ""
			lines[li] = strings.Join(cols, "\t")
		case "hostile-col":
			cols[ci] = hostileFields[mod(m.Arg, len(hostileFields))]
			lines[li] = strings.Join(cols, "\t")
		case "byte-col":
			// the column becomes one arbitrary byte (strand / frame / score columns index tables with it)
			cols[ci] = string([]byte{byte(m.Arg)})
			if cols[ci] == "\n" {
				cols[ci] = "\x80"
			}
			lines[li] = strings.Join(cols, "\t")
		case "keep-cols":
			cols = cols[:mod(m.Arg, len(cols)+1)]
			lines[li] = strings.Join(cols, "\t")
		case "dup-line":
			lines = append(lines[:li+1], lines[li:]...)
		case "del-line":
			lines = append(lines[:li:li], lines[li+1:]...)
		case "hostile-line":
			lines = append(lines[:li+1], lines[li:]...)
			lines[li] = hostileLines[mod(m.Arg, len(hostileLines))]
		case "set-byte":
			s := []byte(strings.Join(lines, "\n"))
			if len(s) > 0 {
				s[mod(m.Col, len(s))] = byte(m.Arg)
			}
			data = s
			continue
		case "truncate":
			s := strings.Join(lines, "\n")
			data = []byte(s[:mod(m.Arg, len(s)+1)])
			continue
		case "crlf":
			data = []byte(strings.Join(lines, "\r\n"))
			continue
		case "bed12-blocks":
			// the three block columns of a BED12 line (count, sizes, starts) replaced together: counts that
			// disagree with the lists, lists that start or end with a comma, empty lists
			if len(cols) >= 12 {
				a := mod(m.Arg, len(blockCounts)*len(blockLists)*len(blockLists))
				cols[9] = blockCounts[a%len(blockCounts)]
				a /= len(blockCounts)
				cols[10] = blockLists[a%len(blockLists)]
				cols[11] = blockLists[a/len(blockLists)]
				lines[li] = strings.Join(cols, "\t")
			}
		case "space-for-tab":
			lines[li] = strings.Replace(lines[li], "\t", " ", 1)
		case "double-space":
			// the first blank of the line becomes two (metaline words are separated by blanks)
			lines[li] = strings.Replace(lines[li], " ", "  ", 1)
		}
		data = []byte(strings.Join(lines, "\n"))
	}
	return data
}

func mod(a, n int) int {
	if n <= 0 {
		return 0
	}
	a %= n
	if a < 0 {
		a += n
	}
	return a
}

var blockCounts = []string{"0", "1", "2", "-1", "3"}
var blockLists = []string{",", ",100", ",0", "", "5", "5,", "0,", "0", "0,5", "5,5", ",,", "5,,5", "1,2,3"}

var mutOps = []string{"del-col", "dup-col", "empty-col", "hostile-col", "byte-col", "byte-col", "keep-cols", "dup-line", "del-line", "hostile-line", "set-byte", "truncate", "crlf", "space-for-tab", "double-space"}

func genMutCase(t *rapid.T) mutCase {
	c := mutCase{Format: rapid.SampledFrom([]string{"fasta", "fastq", "bed", "gff", "gff", "bed"}).Draw(t, "format")}
	switch c.Format {
	case "fasta", "fastq":
		f := iogen.GenSeqFile(t, c.Format, 3, rapid.IntRange(0, 3).Draw(t, "allow-long") == 0)
		c.Seq = &f
	case "bed":
		f := iogen.GenBedFile(t, 3)
		f.M = f.N
		c.Bed = &f
	default:
		f := iogen.GenGffFile(t, 4)
		c.Gff = &f
	}
	n := rapid.IntRange(0, 3).Draw(t, "nmuts")
	for i := 0; i < n; i++ {
		m := mut{Op: rapid.SampledFrom(mutOps).Draw(t, "op"), Line: rapid.IntRange(0, 30).Draw(t, "line"),
			Col: rapid.IntRange(0, 400).Draw(t, "col"), Arg: rapid.IntRange(0, 255).Draw(t, "arg")}
		if c.Bed != nil && c.Bed.N == 12 && rapid.IntRange(0, 2).Draw(t, "blocks") == 1 {
			// a BED12 file: the block columns are replaced together (which combination: Arg and Col)
			m.Op = "bed12-blocks"
			m.Arg += 256 * m.Col
		}
		c.Muts = append(c.Muts, m)
	}
	return c
}

func checkMut(c mutCase) *vlib.Failure {
	data := applyMuts(c.base(), c.Muts)
	for _, r := range c.readers() {
		if _, f := RunTotal(r, data); f != nil {
			f.Msg += fmt.Sprintf("\ninput: %.400q", data)
			return f
		}
	}
	return nil
}

func TestMutatedFiles(t *testing.T) {
	vlib.Run(t, vlib.Prop[mutCase]{Name: "mutated-valid-files", Checks: 6000, Thorough: 600000, Gen: genMutCase, Check: checkMut,
		Classes: func(c mutCase) []string {
			l := []string{"format-" + c.Format}
			for _, m := range c.Muts {
				l = append(l, "op-"+m.Op)
			}
			if len(c.Muts) == 0 {
				l = append(l, "unmutated-valid-file")
			}
			if c.Seq != nil {
				for _, r := range c.Seq.Recs {
					if r.Len >= 4096 {
						l = append(l, "line>=4096")
					}
				}
			}
			if CountLines(c.base()) >= 2 {
				l = append(l, vlib.NT)
			}
			return dedup(l)
		}})
}

func dedup(a []string) []string {
	m := map[string]bool{}
	var o []string
	for _, s := range a {
		if !m[s] {
			m[s] = true
			o = append(o, s)
		}
	}
	return o
}

// ---- (c) structurally invalid lines are reported as errors ---------------------

type invalidCase struct {
	Format string         `json:"format"` // bed gff fastq
	Bed    *iogen.BedFile `json:"bed,omitempty"`
	Gff    *iogen.GffFile `json:"gff,omitempty"`
	Seq    *iogen.SeqFile `json:"seq,omitempty"`
	At     int            `json:"at"`   // index of the record made invalid (mod n)
	Kind   string         `json:"kind"` // which invalidation
	Arg    int            `json:"arg"`
	CRLF   bool           `json:"crlf"`
}

var nonNumeric = []string{"", "x", "1e3", "9223372036854775808", "+", "-", "١", "1.5", "0x", " 5", "5 ", "NaN", "one"}
var badStrand = []string{"", "++", "x", "0", "+-", "?", "1", "\x00", "\x80", "\xab", "\xff", "\xc3\xa9", "\x7f", "~", "+\x80"}
var badMeta = []string{"##gff-version", "##source-version", "##date", "##Type", "##sequence-region", "##sequence-region a", "##sequence-region a 1", "##DNA", "##RNA", "##Protein", "##dna", "##type"}

var bedInvalid = []string{"missing-columns", "non-numeric-start", "non-numeric-end", "bad-strand"}
var gffInvalid = []string{"missing-columns", "non-numeric-start", "non-numeric-end", "start-zero", "bad-strand", "incomplete-metaline", "region-start-zero", "region-non-numeric"}

func genInvalid(t *rapid.T) invalidCase {
	c := invalidCase{Format: rapid.SampledFrom([]string{"bed", "gff", "gff", "fastq"}).Draw(t, "format"), At: rapid.IntRange(0, 5).Draw(t, "at"),
		Arg: rapid.IntRange(0, 100).Draw(t, "arg"), CRLF: rapid.Bool().Draw(t, "crlf")}
	switch c.Format {
	case "bed":
		f := iogen.GenBedFile(t, 4)
		f.M = f.N
		if len(f.Recs) == 0 {
			f.Recs = append(f.Recs, iogen.BedRec{Chrom: "c", Start: 1, End: 2, Name: "n", BlockSizes: []int{1}, BlockStarts: []int{0}})
		}
		c.Bed = &f
		ks := bedInvalid
		if f.N < 6 {
			ks = bedInvalid[:3]
		}
		c.Kind = rapid.SampledFrom(ks).Draw(t, "kind")
	case "gff":
		f := iogen.GenGffFile(t, 4)
		// keep features only so that record k is consumed by call k
		var items []iogen.GffItem
		for _, it := range f.Items {
			if it.Kind == "feature" {
				items = append(items, it)
			}
		}
		if len(items) == 0 {
			items = append(items, iogen.GffItem{Kind: "feature", SeqName: "s", Source: "p", Feature: "f", Start: 3, End: 9, Frame: -1, AttrsNil: true})
		}
		f.Items = items
		f.Header = false
		c.Gff = &f
		c.Kind = rapid.SampledFrom(gffInvalid).Draw(t, "kind")
	default:
		f := iogen.GenSeqFile(t, "fastq", 4, false)
		if len(f.Recs) == 0 {
			f.Recs = append(f.Recs, iogen.SeqRec{Name: "r", Pat: "acgt", Len: 4, QPat: []int{30}})
		}
		c.Seq = &f
		c.Kind = rapid.SampledFrom([]string{"length-mismatch", "length-mismatch", "quality-interior-blank", "no-sequence-line-after-a-mismatch"}).Draw(t, "kind")
	}
	return c
}

// build returns the text and the 1-based index of the Read call that consumes the invalid line.
func (c invalidCase) build() ([]byte, int) {
	eol := "\n"
	if c.CRLF {
		eol = "\r\n"
	}
	switch c.Format {
	case "bed":
		lines := strings.Split(strings.TrimSuffix(string(c.Bed.Text("\n", true)), "\n"), "\n")
		i := mod(c.At, len(lines))
		cols := strings.Split(lines[i], "\t")
		switch c.Kind {
		case "missing-columns":
			cols = cols[:mod(c.Arg, c.Bed.N)] // 0..N-1 columns
		case "non-numeric-start":
			cols[1] = nonNumeric[mod(c.Arg, len(nonNumeric))]
		case "non-numeric-end":
			cols[2] = nonNumeric[mod(c.Arg, len(nonNumeric))]
			if c.Bed.N == 3 && strings.TrimSpace(cols[2]) != cols[2] {
				cols[2] = "x" // the line is trimmed as a whole: a trailing blank on the last column is layout, not content
			}
		case "bad-strand":
			cols[5] = badStrand[mod(c.Arg, len(badStrand))]
			if c.Bed.N == 6 && cols[5] == "" {
				cols[5] = "x"
			}
		}
		lines[i] = strings.Join(cols, "\t")
		return []byte(strings.Join(lines, eol) + eol), i + 1
	case "gff":
		lines := strings.Split(strings.TrimSuffix(string(c.Gff.Text("\n", true)), "\n"), "\n")
		i := mod(c.At, len(lines))
		cols := strings.Split(lines[i], "\t")
		switch c.Kind {
		case "missing-columns":
			cols = cols[:1+mod(c.Arg, 7)] // 1..7 of the 8 mandatory columns
			if len(cols) == 1 && (strings.HasPrefix(cols[0], "#") || strings.TrimSpace(cols[0]) == "") {
				cols[0] = "s"
			}
		case "non-numeric-start":
			cols[3] = nonNumeric[mod(c.Arg, len(nonNumeric))]
		case "non-numeric-end":
			cols[4] = nonNumeric[mod(c.Arg, len(nonNumeric))]
		case "start-zero":
			cols[3] = []string{"0", "-0", "+0", "00", "0x0"}[mod(c.Arg, 5)]
		case "bad-strand":
			cols[6] = badStrand[mod(c.Arg, len(badStrand))]
		case "incomplete-metaline":
			cols = []string{badMeta[mod(c.Arg, len(badMeta))]}
		case "region-start-zero":
			cols = []string{"##sequence-region a 0 5"}
		case "region-non-numeric":
			cols = []string{[]string{"##sequence-region a x 5", "##sequence-region a 1 y", "##sequence-region a  5", "##sequence-region a 1e3 5"}[mod(c.Arg, 4)]}
		}
		lines[i] = strings.Join(cols, "\t")
		return []byte(strings.Join(lines, eol) + eol), i + 1
	default:
		f := *c.Seq
		i := mod(c.At, len(f.Recs))
		var b bytes.Buffer
		for j, r := range f.Recs {
			one := f
			one.Recs = []iogen.SeqRec{r}
			txt := string(one.Render(iogen.Layout{}))
			if j == i {
				ls := strings.Split(strings.TrimSuffix(txt, "\n"), "\n")
				q := ls[3]
				d := 1 + mod(c.Arg, 3)
				if c.Kind == "quality-interior-blank" && len(q) >= 3 {
					// the raw line keeps the length of the sequence, but one interior position
					// is layout (a blank or a tab), not a score: one score is missing
					k := 1 + mod(c.Arg, len(q)-2)
					q = q[:k] + []string{" ", "\t"}[mod(c.Arg/7, 2)] + q[k+1:]
				} else if c.Arg%2 == 0 || len(q) <= d {
					q += strings.Repeat("I", d)
				} else {
					q = q[:len(q)-d]
				}
				if len(ls[1]) == 0 {
					q = "II"
				}
				ls[3] = q
				txt = strings.Join(ls, "\n") + "\n"
				if c.Kind == "no-sequence-line-after-a-mismatch" {
					// the next record has no sequence line at all and as many scores as the record that
					// has just failed had letters: it is a mismatch of its own (0 letters)
					txt += "@zz\n+\n" + strings.Repeat("I", max(len(ls[1]), 1)) + "\n"
				}
			}
			b.WriteString(txt)
		}
		return []byte(strings.ReplaceAll(b.String(), "\n", eol)), i + 1
	}
}

func (c invalidCase) readers() []string {
	switch c.Format {
	case "bed":
		return []string{fmt.Sprintf("bed%d", c.Bed.N)}
	case "gff":
		if c.Kind == "incomplete-metaline" {
			return []string{"gff", "gff-no-time-format", "gff-other-time-format"}
		}
		return []string{"gff"}
	}
	return []string{"fastq", "fastq-plain"}
}

func checkInvalid(c invalidCase) *vlib.Failure {
	data, call := c.build()
	for _, r := range c.readers() {
		o, f := RunTotal(r, data)
		if f != nil {
			f.Msg += fmt.Sprintf("\ninput: %.400q", data)
			return f
		}
		if o.Skipped {
			return nil
		}
		if !errAt(o, call) {
			return vlib.Failf("invalid-line-accepted", "%s reader: %s at record %d was not reported as an error by call %d (errors at calls %v, %d calls, EOF=%v)\ninput: %.400q",
				r, c.Kind, call, call, o.ErrAtCall, o.Calls, o.SawEOF, data)
		}
		if c.Kind == "no-sequence-line-after-a-mismatch" && !errAt(o, call+1) {
			return vlib.Failf("invalid-line-accepted", "%s reader: the record without a sequence line that follows the failed record %d was not reported as an error by call %d (errors at calls %v, %d calls, EOF=%v)\ninput: %.400q",
				r, call, call+1, o.ErrAtCall, o.Calls, o.SawEOF, data)
		}
	}
	return nil
}

func TestInvalidLines(t *testing.T) {
	vlib.Run(t, vlib.Prop[invalidCase]{Name: "invalid-lines-are-errors", Checks: 4000, Thorough: 300000, Gen: genInvalid, Check: checkInvalid,
		Classes: func(c invalidCase) []string {
			l := []string{c.Format + "/" + c.Kind}
			_, call := c.build()
			if call > 1 {
				l = append(l, "after-valid-records", vlib.NT)
			}
			return l
		}})
}

// ---- (d) truncation at every byte offset ---------------------------------------

func checkTruncations(c mutCase) *vlib.Failure {
	data := c.base()
	if len(data) > 400 {
		data = data[:400]
	}
	n := 0
	for cut := 0; cut <= len(data); cut++ {
		for _, r := range c.readers() {
			n++
			if _, f := RunTotal(r, data[:cut]); f != nil {
				f.Msg += fmt.Sprintf("\ninput (truncated at %d): %.400q", cut, data[:cut])
				return f
			}
		}
	}
	vlib.Count("truncated-inputs-run", n)
	return nil
}

func TestTruncation(t *testing.T) {
	vlib.Run(t, vlib.Prop[mutCase]{Name: "truncation-at-every-offset", Checks: 300, Thorough: 20000,
		Gen: func(t *rapid.T) mutCase { c := genMutCase(t); c.Muts = nil; return c }, Check: checkTruncations,
		Classes: func(c mutCase) []string {
			l := []string{"format-" + c.Format}
			if CountLines(c.base()) >= 2 {
				l = append(l, vlib.NT)
			}
			return l
		}})
}
