// C03 — readers are total: malformed input yields errors, never panics or hangs.
package c03

import (
	"bytes"
	"fmt"
	"io"
	"runtime/debug"
	"sync/atomic"
	"time"

	"github.com/biogo/biogo/alphabet"
	"github.com/biogo/biogo/io/featio/bed"
	"github.com/biogo/biogo/io/featio/gff"
	"github.com/biogo/biogo/io/seqio/fasta"
	"github.com/biogo/biogo/io/seqio/fastq"
	"github.com/biogo/biogo/seq/linear"

	"verif/internal/vlib"
)

// Readers lists the eight reader configurations the property names.
var Readers = []string{"fasta", "fastq", "bed3", "bed4", "bed5", "bed6", "bed12", "gff"}

// FastqVariants are further FASTQ reader configurations (template type and quality encoding).
// FastaVariants are further FASTA reader configurations (template type, line prefixes).
var FastaVariants = []string{"fasta-q", "fasta-long-prefix", "fasta-two-prefixes"}

var FastqVariants = []string{"fastq-plain", "fastq-solexa", "fastq-illumina1_3", "fastq-illumina1_5", "fastq-illumina1_8", "fastq-none"}

type readFn func() (rec interface{}, isNil bool, err error)

func newReader(kind string, data []byte) readFn {
	switch kind {
	case "fasta":
		r := fasta.NewReader(bytes.NewReader(data), linear.NewSeq("", nil, alphabet.DNA))
		return func() (interface{}, bool, error) { s, err := r.Read(); return s, s == nil, err }
	case "fasta-long-prefix", "fasta-two-prefixes":
		// IDPrefix and SeqPrefix are exported options of the reader
		r := fasta.NewReader(bytes.NewReader(data), linear.NewSeq("", nil, alphabet.DNA))
		if kind == "fasta-long-prefix" {
			r.IDPrefix = []byte(">>")
		} else {
			r.IDPrefix, r.SeqPrefix = []byte("##"), []byte("#")
		}
		return func() (interface{}, bool, error) { s, err := r.Read(); return s, s == nil, err }
	case "fasta-q":
		r := fasta.NewReader(bytes.NewReader(data), linear.NewQSeq("", nil, alphabet.DNA, alphabet.Sanger))
		return func() (interface{}, bool, error) { s, err := r.Read(); return s, s == nil, err }
	case "fastq":
		r := fastq.NewReader(bytes.NewReader(data), linear.NewQSeq("", nil, alphabet.DNA, alphabet.Sanger))
		return func() (interface{}, bool, error) { s, err := r.Read(); return s, s == nil, err }
	case "fastq-solexa", "fastq-illumina1_3", "fastq-illumina1_5", "fastq-illumina1_8", "fastq-none":
		enc := map[string]alphabet.Encoding{"fastq-solexa": alphabet.Solexa, "fastq-illumina1_3": alphabet.Illumina1_3, "fastq-illumina1_5": alphabet.Illumina1_5,
			"fastq-illumina1_8": alphabet.Illumina1_8, "fastq-none": alphabet.None}[kind]
		r := fastq.NewReader(bytes.NewReader(data), linear.NewQSeq("", nil, alphabet.DNA, enc))
		return func() (interface{}, bool, error) { s, err := r.Read(); return s, s == nil, err }
	case "fastq-plain":
		r := fastq.NewReader(bytes.NewReader(data), linear.NewSeq("", nil, alphabet.DNA))
		return func() (interface{}, bool, error) { s, err := r.Read(); return s, s == nil, err }
	case "bed3", "bed4", "bed5", "bed6", "bed12":
		n := map[string]int{"bed3": 3, "bed4": 4, "bed5": 5, "bed6": 6, "bed12": 12}[kind]
		r, err := bed.NewReader(bytes.NewReader(data), n)
		if err != nil {
			panic(err)
		}
		return func() (interface{}, bool, error) { f, err := r.Read(); return f, f == nil, err }
	case "gff", "gff-no-time-format", "gff-other-time-format":
		r := gff.NewReader(bytes.NewReader(data))
		// TimeFormat is an exported option: empty means "do not parse dates", any other layout is
		// handed to time.Parse
		switch kind {
		case "gff-no-time-format":
			r.TimeFormat = ""
		case "gff-other-time-format":
			r.TimeFormat = "2006-01-02 15:04"
		}
		return func() (interface{}, bool, error) { f, err := r.Read(); return f, f == nil, err }
	}
	panic("unknown reader " + kind)
}

// CountLines is the number of input lines (a final unterminated line counts).
func CountLines(data []byte) int {
	n := bytes.Count(data, []byte{'\n'})
	if len(data) > 0 && data[len(data)-1] != '\n' {
		n++
	}
	return n
}

// Outcome of one totality run.
type Outcome struct {
	Calls     int
	OKCalls   int
	FirstErr  int   // 1-based call index of the first non-nil error (0: none)
	ErrAtCall []int // 1-based indices of calls that returned a non-EOF error
	SawEOF    bool
	Skipped   bool // not run: three readers of this process hang already
}

const watchdog = 20 * time.Second

// hangs counts the watchdog expiries of this process. Every expiry leaves a goroutine behind that may spin
// for good, so once a reader has been seen to hang the later calls (shrinking, the other sub-properties)
// wait 3 s only: the verdict is in, what remains is to finish and report within the check's own time limit.
var hangs atomic.Int32

func currentWatchdog() time.Duration {
	if hangs.Load() > 0 {
		return 3 * time.Second
	}
	return watchdog
}

// RunTotal calls Read repeatedly on data and checks the totality clauses.
func RunTotal(kind string, data []byte) (Outcome, *vlib.Failure) {
	type res struct {
		o Outcome
		f *vlib.Failure
	}
	if hangs.Load() >= 3 {
		// three readers of this process spin already; whatever else would be learnt is not worth the
		// processor time they take from the other shards (the hangs found are reported, shrinking keeps
		// the last case that really hung)
		vlib.Count("not-run-after-three-hangs", 1)
		return Outcome{Skipped: true}, nil
	}
	ch := make(chan res, 1)
	w := currentWatchdog()
	go func() {
		o, f := runTotal(kind, data)
		ch <- res{o, f}
	}()
	select {
	case r := <-ch:
		return r.o, r.f
	case <-time.After(w):
		hangs.Add(1)
		return Outcome{}, vlib.Failf("hang", "%s reader: calls did not return within %v on %d bytes", kind, w, len(data))
	}
}

func runTotal(kind string, data []byte) (o Outcome, fail *vlib.Failure) {
	lines := CountLines(data)
	read := newReader(kind, data)
	safe := func() (rec interface{}, isNil bool, err error, f *vlib.Failure) {
		defer func() {
			if r := recover(); r != nil {
				st := string(debug.Stack())
				if len(st) > 2500 {
					st = st[:2500]
				}
				f = vlib.Failf("panic", "%s reader panicked on call %d: %v\n%s", kind, o.Calls, r, st)
			}
		}()
		rec, isNil, err = read()
		return
	}
	// "reaches io.EOF (or another error) within one call per input line plus one"
	for o.Calls < lines+1 {
		o.Calls++
		_, isNil, err, f := safe()
		if f != nil {
			return o, f
		}
		if isNil && err == nil {
			return o, vlib.Failf("nil-nil", "%s reader: call %d returned (nil, nil)", kind, o.Calls)
		}
		if err != nil {
			if o.FirstErr == 0 {
				o.FirstErr = o.Calls
			}
			if err == io.EOF {
				o.SawEOF = true
				break
			}
			o.ErrAtCall = append(o.ErrAtCall, o.Calls)
		} else {
			o.OKCalls++
		}
	}
	if o.FirstErr == 0 {
		return o, vlib.Failf("no-error-within-bound", "%s reader: %d calls on an input of %d lines all returned a record and no error", kind, o.Calls, lines)
	}
	return o, nil
}

func errAt(o Outcome, call int) bool {
	for _, c := range o.ErrAtCall {
		if c == call {
			return true
		}
	}
	return false
}

var _ = fmt.Sprint
