package c03

import (
	"os"
	"path/filepath"
	"testing"

	"verif/internal/vlib"
)

// Native coverage-guided fuzz targets (thorough tier only; see vcheck). The
// oracle is the same RunTotal as in the rapid properties. A failure writes a
// vlib replay file (sub-property "arbitrary-bytes"), so that
// `./vcheck C03 --replay <file>` re-runs it without the fuzzer.

func seedCorpus(f *testing.F) {
	for _, s := range hostileLines {
		f.Add([]byte(s + "\n"))
	}
	for _, s := range fragments {
		f.Add([]byte(s))
	}
	f.Add([]byte(""))
	// the repository's own fixtures
	for _, g := range []string{"io/seqio/fasta/*.fa*", "io/seqio/fastq/*.f*q", "io/featio/bed/*.bed", "io/featio/gff/*.gff", "io/featio/gff/testdata/*", "io/featio/bed/testdata/*", "testdata/*"} {
		ms, _ := filepath.Glob(filepath.Join("/repo", g))
		for _, m := range ms {
			if b, err := os.ReadFile(m); err == nil && len(b) < 1<<16 {
				f.Add(b)
			}
		}
	}
}

func fuzzReader(f *testing.F, kinds ...string) {
	if os.Getenv("VERIF_FUZZ_EMPTY_CORPUS") == "" {
		seedCorpus(f)
	}
	f.Fuzz(func(t *testing.T, data []byte) {
		if len(data) > 1<<16 {
			return
		}
		for _, k := range kinds {
			if _, fl := RunTotal(k, data); fl != nil {
				p := vlib.WriteReplay("arbitrary-bytes", bytesCase{Reader: k, Data: data}, fl)
				t.Fatalf("VERIF-FUZZ-FAIL replay=%s %s: %s", p, fl.Kind, fl.Msg)
			}
		}
	})
}

func FuzzFasta(f *testing.F) { fuzzReader(f, append([]string{"fasta"}, FastaVariants...)...) }
func FuzzFastq(f *testing.F) { fuzzReader(f, append([]string{"fastq"}, FastqVariants...)...) }
func FuzzBed(f *testing.F)   { fuzzReader(f, "bed3", "bed4", "bed5", "bed6", "bed12") }
func FuzzGff(f *testing.F)   { fuzzReader(f, "gff") }
