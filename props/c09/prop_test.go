// C09 — alignment descriptions are well-formed, faithfully scored and type-independent.
package c09

import (
	"fmt"
	"os"
	"strings"
	"testing"

	"github.com/biogo/biogo/align"
	"github.com/biogo/biogo/alphabet"
	"github.com/biogo/biogo/seq"
	"github.com/biogo/biogo/seq/alignment"
	"github.com/biogo/biogo/seq/linear"
	"pgregory.net/rapid"

	ax "verif/internal/alignx"
	"verif/internal/vlib"
)

func TestMain(m *testing.M) { vlib.Main(m, "C09"); os.Exit(0) }

var aligners = []string{"NW", "SW", "Fitted", "NWAffine", "SWAffine", "FittedAffine"}

// ---- well-formed, faithful, type-independent ---------------------------------------------

func checkDescription(c ax.Case) *vlib.Failure {
	alpha := ax.Alpha(c.Alpha)
	r, q := ax.Indices(alpha, c.R), ax.Indices(alpha, c.Q)
	n, m := len(r), len(q)
	sc := ax.Scoring{M: c.Mat.Build(alpha.Len()), Open: c.GapOpen, Affine: c.Affine()}
	desc := fmt.Sprintf("%s r=%q q=%q open=%d mat=%+v", c.Aligner, c.R, c.Q, c.GapOpen, c.Mat)
	c.QLetters = false
	ps, raw, err := c.Run()
	if err != nil {
		return vlib.Failf("error", "%s: %v", desc, err)
	}
	if pe := ax.CheckPath(ps, n, m); pe != nil {
		return vlib.Failf(pe.Kind, "%s: %s (pairs %v)", desc, pe.Msg, ps)
	}
	first, last := ps[0], ps[len(ps)-1]
	if strings.HasPrefix(c.Aligner, "NW") && (first.AS != 0 || first.BS != 0 || last.AE != n || last.BE != m) {
		return vlib.Failf("not-global", "%s: a global alignment must span both sequences, got r[%d,%d) q[%d,%d) (pairs %v)", desc, first.AS, last.AE, first.BS, last.BE, ps)
	}
	// reported score of each pair = score recomputed from letters, matrix and gap parameters;
	// a run of adjacent gap pairs of the same kind is one gap and is compared as a whole
	for i := 0; i < len(ps); {
		j := i + 1
		k := ps[i].Kind()
		reported := ps[i].Score
		merged := ps[i]
		for (k == "up" || k == "left") && j < len(ps) && ps[j].Kind() == k {
			reported += ps[j].Score
			merged.AE, merged.BE = ps[j].AE, ps[j].BE
			j++
		}
		if want := ax.PairScore(merged, r, q, sc); reported != want {
			return vlib.Failf("pair-score", "%s: pair(s) %v report score %d, recomputed from the letters and parameters: %d (all pairs %v)", desc, ps[i:j], reported, want, ps)
		}
		i = j
	}
	// quality-carrying sequences give the same pairs
	cq := c
	cq.QLetters = true
	qs, _, err := cq.Run()
	if err != nil {
		return vlib.Failf("qletters-error", "%s: aligning quality sequences with the same letters failed: %v", desc, err)
	}
	if fmt.Sprint(qs) != fmt.Sprint(ps) {
		return vlib.Failf("type-dependence", "%s: plain sequences give %v, quality sequences with the same letters give %v", desc, ps, qs)
	}
	// Format
	rs, qseq := c.Seqs()
	gap := alpha.Gap()
	f := align.Format(rs.(seq.Slicer), qseq.(seq.Slicer), raw, gap)
	rowA, rowB := f[0].(alphabet.Letters), f[1].(alphabet.Letters)
	if len(rowA) != len(rowB) {
		return vlib.Failf("format-row-lengths", "%s: Format rows have lengths %d and %d (%q / %q)", desc, len(rowA), len(rowB), rowA, rowB)
	}
	strip := func(l alphabet.Letters) string {
		return strings.ReplaceAll(string(alphabet.LettersToBytes(l)), string([]byte{byte(gap)}), "")
	}
	// (a sequence may itself hold the gap letter: it is removed from both sides of the comparison)
	gs := string([]byte{byte(gap)})
	if strip(rowA) != strings.ReplaceAll(c.R[first.AS:last.AE], gs, "") || strip(rowB) != strings.ReplaceAll(c.Q[first.BS:last.BE], gs, "") {
		return vlib.Failf("format-content", "%s: Format rows %q / %q do not reduce to the aligned subsequences %q / %q", desc, rowA, rowB, c.R[first.AS:last.AE], c.Q[first.BS:last.BE])
	}
	// Format takes the gap letter from its caller: a second rendering of the same alignment with
	// another letter (one that occurs in neither sequence) uses that letter and nothing else
	for _, g2 := range []alphabet.Letter{'.', '~'} {
		f2 := align.Format(rs.(seq.Slicer), qseq.(seq.Slicer), raw, g2)
		a2, b2 := f2[0].(alphabet.Letters), f2[1].(alphabet.Letters)
		strip2 := func(l alphabet.Letters) string {
			return strings.ReplaceAll(string(alphabet.LettersToBytes(l)), string([]byte{byte(g2)}), "")
		}
		if len(a2) != len(rowA) || len(b2) != len(rowB) || strip2(a2) != c.R[first.AS:last.AE] || strip2(b2) != c.Q[first.BS:last.BE] {
			return vlib.Failf("format-content", "%s: Format with gap letter %q after a rendering with %q gives %q / %q, which do not reduce to the aligned subsequences", desc, g2, gap, a2, b2)
		}
	}
	// the same for quality-carrying sequences
	rq, qq := cq.Seqs()
	fq := align.Format(rq.(seq.Slicer), qq.(seq.Slicer), raw, gap)
	qa, qb := fq[0].(alphabet.QLetters), fq[1].(alphabet.QLetters)
	if len(qa) != len(qb) {
		return vlib.Failf("format-row-lengths", "%s: Format rows of quality sequences have lengths %d and %d", desc, len(qa), len(qb))
	}
	stripQ := func(l alphabet.QLetters) string {
		var b []byte
		for _, ql := range l {
			if ql.L != gap {
				b = append(b, byte(ql.L))
			}
		}
		return string(b)
	}
	if stripQ(qa) != strings.ReplaceAll(c.R[first.AS:last.AE], gs, "") || stripQ(qb) != strings.ReplaceAll(c.Q[first.BS:last.BE], gs, "") || len(qa) != len(rowA) {
		return vlib.Failf("format-content", "%s: Format rows of quality sequences do not reduce to the aligned subsequences (lengths %d vs %d for plain sequences)", desc, len(qa), len(rowA))
	}
	return nil
}

func genMat(t *rapid.T) ax.MatSpec {
	var m ax.MatSpec
	lo, hi := -6, 6
	if rapid.IntRange(0, 2).Draw(t, "tie-bias") == 0 {
		lo, hi = -2, 2
	}
	for i, n := 0, rapid.IntRange(1, 4).Draw(t, "ndiag"); i < n; i++ {
		m.Diag = append(m.Diag, rapid.IntRange(lo, hi).Draw(t, "diag"))
	}
	for i, n := 0, rapid.IntRange(1, 7).Draw(t, "noff"); i < n; i++ {
		m.Off = append(m.Off, rapid.IntRange(lo, hi).Draw(t, "off"))
	}
	for i, n := 0, rapid.IntRange(1, 3).Draw(t, "ngap"); i < n; i++ {
		m.GapRow = append(m.GapRow, rapid.IntRange(lo, 0).Draw(t, "gaprow"))
		m.GapCol = append(m.GapCol, rapid.IntRange(lo, 0).Draw(t, "gapcol"))
	}
	return m
}

func genSeq(t *rapid.T, label, pool string, min, max int, from string) string {
	n := rapid.IntRange(min, max).Draw(t, label+"-len")
	b := make([]byte, n)
	for i := range b {
		if from != "" && rapid.IntRange(0, 3).Draw(t, label+"-copy") > 0 {
			b[i] = from[(i+len(from)/3)%len(from)]
		} else {
			b[i] = pool[rapid.IntRange(0, len(pool)-1).Draw(t, label+"-l")]
		}
	}
	return string(b)
}

func genCase(t *rapid.T) ax.Case {
	c := ax.Case{Aligner: rapid.SampledFrom(aligners).Draw(t, "aligner"), Alpha: rapid.SampledFrom([]string{"DNAgapped", "DNAgapped", "Protein", "RNAgapped"}).Draw(t, "alpha")}
	a := ax.Alpha(c.Alpha)
	pool := a.Letters()[1:a.Len()]
	if rapid.Bool().Draw(t, "small-pool") && len(pool) > 3 {
		pool = pool[:3]
	}
	switch rapid.IntRange(0, 9).Draw(t, "pool-extra") {
	case 3:
		// the gap letter is a letter of the alphabet like any other (index 0): a sequence may hold it
		pool = "-" + pool
	case 6:
		// the alphabets are case-insensitive: upper-case letters share the index of their lower-case forms
		pool = pool + strings.ToUpper(pool)
	}
	maxLen := 40
	if vlib.Thorough() {
		maxLen = 150
	}
	c.R = genSeq(t, "r", pool, 1, maxLen, "")
	c.Q = genSeq(t, "q", pool, 1, maxLen, c.R)
	c.Mat = genMat(t)
	if rapid.IntRange(0, 2).Draw(t, "edited-copy") == 0 {
		// the query is an edited copy of the reference (stretches deleted and inserted) and gaps are
		// cheap relative to mismatches, so that alignments contain gaps in both sequences
		c.R = genSeq(t, "r2", pool, 8, maxLen, "")
		var q []byte
		for i := 0; i < len(c.R); {
			switch rapid.IntRange(0, 7).Draw(t, "edit") {
			case 0: // delete a stretch of the reference
				i += rapid.IntRange(1, 3).Draw(t, "del")
			case 1: // insert a stretch
				for k, n := 0, rapid.IntRange(1, 3).Draw(t, "ins"); k < n; k++ {
					q = append(q, pool[rapid.IntRange(0, len(pool)-1).Draw(t, "ins-l")])
				}
			default:
				q = append(q, c.R[i])
				i++
			}
		}
		if len(q) == 0 {
			q = []byte{c.R[0]}
		}
		c.Q = string(q)
		c.Mat = ax.MatSpec{Diag: []int{rapid.IntRange(2, 5).Draw(t, "match")}, Off: []int{rapid.IntRange(-6, -4).Draw(t, "mismatch")},
			GapRow: []int{rapid.IntRange(-1, 0).Draw(t, "gr")}, GapCol: []int{rapid.IntRange(-1, 0).Draw(t, "gc")}}
	}
	switch rapid.IntRange(0, 79).Draw(t, "size-class") {
	case 41:
		// a DP table of more than 65536 cells
		c.R = genSeq(t, "r-large", pool, 257, 420, "")
		c.Q = genSeq(t, "q-large", pool, 257, 420, c.R)
	case 17, 53:
		// one long gap: the reference (or the query) carries an insert of 200..520 letters the other
		// sequence lacks; gaps are cheap and mismatches dear, so the alignment bridges it with one gap
		left, right := genSeq(t, "gap-left", pool, 6, 20, ""), genSeq(t, "gap-right", pool, 6, 20, "")
		ins := genSeq(t, "gap-insert", pool, 200, 520, "")
		c.R, c.Q = left+ins+right, left+right
		if rapid.Bool().Draw(t, "gap-in-reference") {
			c.R, c.Q = c.Q, c.R
		}
		c.Mat = ax.MatSpec{Diag: []int{rapid.IntRange(3, 6).Draw(t, "lg-match")}, Off: []int{-6}, GapRow: []int{rapid.IntRange(-1, 0).Draw(t, "lg-gr")}, GapCol: []int{rapid.IntRange(-1, 0).Draw(t, "lg-gc")}}
	}
	if c.Affine() {
		c.GapOpen = rapid.IntRange(-6, 0).Draw(t, "open")
	}
	if len(c.R) <= 40 && len(c.Q) <= 40 && rapid.IntRange(0, 14).Draw(t, "large-scores") == 9 {
		c.Mat.Scale = rapid.SampledFrom([]int{1 << 20, 1 << 28, 1 << 30, 1<<31 - 1}).Draw(t, "scale")
		c.GapOpen *= c.Mat.Scale
	}
	ax.GenUsage(t, &c, pool, func(t *rapid.T) ax.MatSpec { return genMat(t) })
	return c
}

func descClasses(c ax.Case) []string {
	l := append([]string{c.Aligner}, c.UsageClasses()...)
	if (len(c.R)+1)*(len(c.Q)+1) >= 65536 {
		l = append(l, "table>=65536-cells")
	}
	if d := len(c.R) - len(c.Q); d >= 200 || d <= -200 {
		l = append(l, "gap-of-200-or-more")
	}
	if strings.Contains(c.R+c.Q, "-") {
		l = append(l, "gap-letter-inside-a-sequence")
	}
	if strings.ToLower(c.R+c.Q) != c.R+c.Q {
		l = append(l, "upper-case-letters")
	}
	ps, _, err := c.Run()
	if err == nil {
		kinds := map[string]bool{}
		for _, p := range ps {
			kinds[p.Kind()] = true
		}
		if len(ps) >= 3 && kinds["up"] && kinds["left"] {
			l = append(l, "gaps-of-both-kinds", vlib.NT)
		}
		if kinds["empty"] {
			l = append(l, "has-empty-pair")
		}
	}
	return l
}

func TestDescriptions(t *testing.T) {
	vlib.Run(t, vlib.Prop[ax.Case]{Name: "descriptions", Checks: 6000, Thorough: 320000, Gen: genCase, Check: checkDescription, Classes: descClasses,
		MinFrac: map[string]float64{"gaps-of-both-kinds": 0.1}})
}

var panel = []ax.MatSpec{
	{Diag: []int{1}, Off: []int{-1}, GapRow: []int{-1}, GapCol: []int{-1}},
	{Diag: []int{2, 1}, Off: []int{-1, 0, -2}, GapRow: []int{-1, -2}, GapCol: []int{-2, -1}},
	{Diag: []int{0}, Off: []int{0}, GapRow: []int{0}, GapCol: []int{0}},
	{Diag: []int{1}, Off: []int{1}, GapRow: []int{-1}, GapCol: []int{-1}},
	{Diag: []int{2}, Off: []int{-3}, GapRow: []int{0}, GapCol: []int{0}},
	{Diag: []int{-1, 2}, Off: []int{-4}, GapRow: []int{-1}, GapCol: []int{-1}},
}

func TestExhaustive(t *testing.T) {
	letters, maxLen := "ac", 3
	if vlib.Thorough() {
		letters, maxLen = "acg", 4
	}
	var seqs []string
	var build func(prefix string)
	build = func(prefix string) {
		if len(prefix) > 0 {
			seqs = append(seqs, prefix)
		}
		if len(prefix) == maxLen {
			return
		}
		for i := 0; i < len(letters); i++ {
			build(prefix + letters[i:i+1])
		}
	}
	build("")
	vlib.RunEnum(t, vlib.Enum[ax.Case]{Name: "exhaustive-short-pairs", DistinctByConstruction: true,
		Each: func(yield func(ax.Case) bool) {
			for _, al := range aligners {
				opens := []int{0}
				if strings.HasSuffix(al, "Affine") {
					opens = []int{0, -1, -3}
				}
				for _, m := range panel {
					for _, o := range opens {
						for _, r := range seqs {
							for _, q := range seqs {
								if !yield(ax.Case{Aligner: al, Alpha: "DNAgapped", R: r, Q: q, Mat: m, GapOpen: o}) {
									return
								}
							}
						}
					}
				}
			}
		},
		Check: checkDescription,
		Classes: func(c ax.Case) []string {
			if len(c.R) >= 2 && len(c.Q) >= 2 {
				return []string{c.Aligner, vlib.NT}
			}
			return []string{c.Aligner}
		}})
}

// ---- ill-typed input produces an error, never a panic -------------------------------------

type badCase struct {
	Kind string  `json:"kind"`
	C    ax.Case `json:"case"`
	Pos  int     `json:"pos"`
	InQ  bool    `json:"in_query"`
	Bad  int     `json:"bad_letter"`
	Rows int     `json:"rows"` // matrix shape mutations
}

var badKinds = []string{"column-typed-sequence", "illegal-letter", "different-alphabets", "nil-alphabet", "ungapped-alphabet", "mixed-types", "ragged-matrix", "ragged-matrix-same-cell-count", "short-matrix", "empty-matrix", "short-row"}

func checkBad(b badCase) *vlib.Failure {
	c := b.C
	alpha := ax.Alpha(c.Alpha)
	m := c.Mat.Build(alpha.Len())
	var r, q align.AlphabetSlicer = c.Seqs()
	rStr, qStr := c.R, c.Q
	mkSeq := func(id, s string, a alphabet.Alphabet, quality bool) align.AlphabetSlicer {
		if quality {
			ql := make([]alphabet.QLetter, len(s))
			for i := range ql {
				ql[i] = alphabet.QLetter{L: alphabet.Letter(s[i]), Q: 20}
			}
			return linear.NewQSeq(id, ql, a, alphabet.Sanger)
		}
		return linear.NewSeq(id, alphabet.BytesToLetters([]byte(s)), a)
	}
	switch b.Kind {
	case "illegal-letter":
		bad := []byte("!zZ*.@\x00\xff-n")[b.Bad%10]
		if alpha.IsValid(alphabet.Letter(bad)) {
			bad = '!'
		}
		if b.InQ {
			p := b.Pos % len(qStr)
			qStr = qStr[:p] + string([]byte{bad}) + qStr[p+1:]
		} else {
			p := b.Pos % len(rStr)
			rStr = rStr[:p] + string([]byte{bad}) + rStr[p+1:]
		}
		r, q = mkSeq("r", rStr, alpha, c.QLetters), mkSeq("q", qStr, alpha, c.QLetters)
	case "different-alphabets":
		// any two distinct alphabets, on either side, also when one is a subset of the other; the
		// matrix fits the larger one, so that nothing but the alphabet mismatch is wrong
		others := []alphabet.Alphabet{alphabet.DNAgapped, alphabet.RNAgapped, alphabet.DNAredundant, alphabet.RNAredundant, alphabet.Protein}
		other := others[b.Bad%len(others)]
		if other == alpha {
			other = others[(b.Bad+1)%len(others)]
		}
		if other.Len() > alpha.Len() {
			m = c.Mat.Build(other.Len())
		}
		if b.Pos%2 == 0 {
			q = mkSeq("q", qStr, other, c.QLetters)
		} else {
			r = mkSeq("r", rStr, other, c.QLetters)
		}
	case "nil-alphabet":
		r, q = mkSeq("r", rStr, nil, c.QLetters), mkSeq("q", qStr, nil, c.QLetters)
	case "ungapped-alphabet":
		r, q = mkSeq("r", "acgt", alphabet.DNA, c.QLetters), mkSeq("q", "acct", alphabet.DNA, c.QLetters)
		m = c.Mat.Build(alphabet.DNA.Len())
	case "mixed-types":
		q = mkSeq("q", qStr, alpha, !c.QLetters)
	case "column-typed-sequence":
		// a sequence type whose Slice is neither Letters nor QLetters: a one-row
		// column-stored alignment (alphabet.Columns / alphabet.QColumns), on the
		// reference side, the query side or both
		mkCol := func(id, s string, quality bool) align.AlphabetSlicer {
			if quality {
				cols := make([][]alphabet.QLetter, len(s))
				for i := range cols {
					cols[i] = []alphabet.QLetter{{L: alphabet.Letter(s[i]), Q: 20}}
				}
				a, err := alignment.NewQSeq(id, []string{"row"}, cols, alpha, alphabet.Sanger, seq.DefaultQConsensus)
				if err != nil {
					panic("harness: " + err.Error())
				}
				return a
			}
			cols := make([][]alphabet.Letter, len(s))
			for i := range cols {
				cols[i] = []alphabet.Letter{alphabet.Letter(s[i])}
			}
			a, err := alignment.NewSeq(id, []string{"row"}, cols, alpha, seq.DefaultConsensus)
			if err != nil {
				panic("harness: " + err.Error())
			}
			return a
		}
		switch b.Bad % 3 {
		case 0:
			q = mkCol("q", qStr, b.Pos%2 == 1)
		case 1:
			r = mkCol("r", rStr, b.Pos%2 == 1)
		default:
			r, q = mkCol("r", rStr, b.Pos%2 == 1), mkCol("q", qStr, b.Pos%2 == 1)
		}
	case "ragged-matrix":
		row := b.Rows % len(m)
		m[row] = append(m[row], 0)
	case "ragged-matrix-same-cell-count":
		// one row too long, another too short by as much: the number of cells is that of a square matrix
		row := b.Rows % len(m)
		other := (row + 1 + b.Pos%(len(m)-1)) % len(m)
		d := 1 + b.Bad%2
		m[row] = append(append([]int(nil), m[row]...), make([]int, d)...)
		m[other] = m[other][:len(m[other])-d]
	case "short-row":
		row := b.Rows % len(m)
		m[row] = m[row][:len(m[row])-1]
	case "short-matrix":
		k := 1 + b.Rows%(len(m)-1) // 1..len-1 rows and columns
		m = m[:k]
		for i := range m {
			m[i] = m[i][:k]
		}
	case "empty-matrix":
		m = nil
	}
	desc := fmt.Sprintf("%s with %s (r=%q q=%q)", c.Aligner, b.Kind, rStr, qStr)
	var err error
	var ps interface{}
	func() {
		defer func() {
			if rec := recover(); rec != nil {
				err = fmt.Errorf("PANIC: %v", rec)
			}
		}()
		ps, err = c.LibAligner(m).Align(r, q)
	}()
	if err != nil && strings.HasPrefix(err.Error(), "PANIC: ") {
		return vlib.Failf("panic-on-"+b.Kind, "%s panicked instead of returning an error: %v", desc, err)
	}
	if err == nil {
		return vlib.Failf("accepted-"+b.Kind, "%s returned no error (result %v)", desc, ps)
	}
	return nil
}

func TestIllTyped(t *testing.T) {
	vlib.Run(t, vlib.Prop[badCase]{Name: "ill-typed-input", Checks: 5000, Thorough: 200000,
		Gen: func(t *rapid.T) badCase {
			c := genCase(t)
			c.QLetters = rapid.Bool().Draw(t, "qletters")
			if len(c.R) > 12 {
				c.R = c.R[:12]
			}
			if len(c.Q) > 12 {
				c.Q = c.Q[:12]
			}
			return badCase{Kind: rapid.SampledFrom(badKinds).Draw(t, "kind"), C: c, Pos: rapid.IntRange(0, 11).Draw(t, "pos"), InQ: rapid.Bool().Draw(t, "in-q"),
				Bad: rapid.IntRange(0, 9).Draw(t, "bad"), Rows: rapid.IntRange(0, 40).Draw(t, "rows")}
		},
		Check:   checkBad,
		Classes: func(b badCase) []string { return []string{b.Kind, b.C.Aligner + "/" + b.Kind, vlib.NT} }})
}

// every position of either sequence, for every aligner and both letter types (bounded-exhaustive)
func TestIllegalLetterEverywhere(t *testing.T) {
	vlib.RunEnum(t, vlib.Enum[badCase]{Name: "illegal-letter-at-every-position", DistinctByConstruction: true,
		Each: func(yield func(badCase) bool) {
			for _, al := range aligners {
				for _, ql := range []bool{false, true} {
					for _, rq := range [][2]string{{"acgt", "acg"}, {"a", "a"}, {"ac", "gtca"}, {"ttgca", "t"}} {
						c := ax.Case{Aligner: al, Alpha: "DNAgapped", R: rq[0], Q: rq[1], Mat: panel[0], GapOpen: -1, QLetters: ql}
						for _, inQ := range []bool{false, true} {
							n := len(rq[0])
							if inQ {
								n = len(rq[1])
							}
							for p := 0; p < n; p++ {
								for bad := 0; bad < 3; bad++ {
									if !yield(badCase{Kind: "illegal-letter", C: c, Pos: p, InQ: inQ, Bad: bad}) {
										return
									}
								}
							}
						}
					}
				}
			}
		},
		Check: checkBad, Classes: func(b badCase) []string { return []string{b.C.Aligner, vlib.NT} }})
}
