// C02 — BED and GFF features survive write-then-read with coordinate conventions.
package c02

import (
	"fmt"
	"math"
	"os"
	"testing"

	"pgregory.net/rapid"

	"verif/internal/iogen"
	"verif/internal/vlib"
)

func TestMain(m *testing.M) { vlib.Main(m, "C02"); os.Exit(0) }

func fail(err error) *vlib.Failure {
	if err == nil {
		return nil
	}
	k, m := iogen.ErrKind(err)
	return &vlib.Failure{Kind: k, Msg: m}
}

func checkBed(f iogen.BedFile) *vlib.Failure {
	data, err := f.WriteLib()
	if err != nil {
		return fail(err)
	}
	if want := f.Text("\n", true); string(want) != string(data) {
		return vlib.Failf("text", "writer emitted %q, the %d-column rendering of the records is %q", clip(data), f.M, clip(want))
	}
	return fail(f.ReadCompare(data))
}

func clip(b []byte) string {
	if len(b) > 300 {
		return string(b[:300]) + "…"
	}
	return string(b)
}

func extreme(v int) bool { return v < 0 || v > math.MaxInt32 }

func bedClasses(f iogen.BedFile) []string {
	l := []string{fmt.Sprintf("bed%d", f.N), fmt.Sprintf("write-width=%d", f.M)}
	l = append(l, iogen.RouteClasses(f.Route)...)
	if f.Generic != 0 {
		l = append(l, "feature-of-another-type-written-as-bed")
	}
	nt := false
	if f.FirstM != 0 && f.FirstM != f.M && len(f.Recs) > 0 {
		l = append(l, "width-set-after-construction")
		nt = true
	}
	if f.M < f.N {
		l = append(l, "narrower-write")
		nt = len(f.Recs) > 0
	}
	if f.N == 12 && f.M == 12 && len(f.Recs) > 0 {
		l = append(l, "full-bed12")
		nt = true
	}
	for _, r := range f.Recs {
		if extreme(r.Start) || extreme(r.End) || (f.M >= 5 && extreme(r.Score)) {
			l = append(l, "negative-or-extreme-int")
			nt = true
			break
		}
	}
	if len(f.Recs) >= 2 {
		l = append(l, "records>=2")
	}
	for _, r := range f.Recs {
		if len(r.BlockSizes) > 500 && f.M == 12 {
			l = append(l, "line>4096")
			break
		}
	}
	if nt {
		l = append(l, vlib.NT)
	}
	return l
}

func TestBed(t *testing.T) {
	vlib.Run(t, vlib.Prop[iogen.BedFile]{Name: "bed-roundtrip", Checks: 4000, Thorough: 300000,
		Gen:   func(t *rapid.T) iogen.BedFile { return iogen.GenBedFile(t, 6) },
		Check: checkBed, Classes: bedClasses,
		MinFrac: map[string]float64{"narrower-write": 0.2, "full-bed12": 0.08, "negative-or-extreme-int": 0.3, "line>4096": 0.01, "width-set-after-construction": 0.08}})
}

func checkGff(f iogen.GffFile) *vlib.Failure {
	data, err := f.WriteLib()
	if err != nil {
		return fail(err)
	}
	if err := f.CheckText(data); err != nil {
		return fail(err)
	}
	return fail(f.ReadCompare(data))
}

func gffClasses(f iogen.GffFile) []string {
	l := iogen.RouteClasses(f.Route)
	seen := map[string]bool{}
	for _, it := range f.Items {
		seen["kind-"+it.Kind] = true
		if it.Kind == "feature" {
			if len(it.Attrs) >= 2 {
				seen["attrs>=2"] = true
			}
			if len(it.Attrs) > 0 && it.Comments != "" {
				seen["attrs+comments"] = true
			}
			if it.AttrsNil && it.Comments != "" {
				seen["nil-attrs+comments"] = true
			}
			if it.HasScore && math.IsInf(math.Float64frombits(it.Score), 0) {
				seen["infinite-score"] = true
			}
			if it.HasScore {
				seen["score"] = true
			}
			if it.Start == 0 {
				seen["start=0"] = true
			}
			if it.Start < 0 {
				seen["negative-start"] = true
			}
			if len(it.Comments) > 4000 {
				seen["line>4096"] = true
			}
		}
		if it.Kind == "seq" && it.Len > f.Width {
			seen["inline-seq-multiline"] = true
		}
	}
	nt := false
	for k := range seen {
		l = append(l, k)
		switch k {
		case "attrs>=2", "attrs+comments", "nil-attrs+comments", "infinite-score", "inline-seq-multiline", "kind-region", "start=0":
			nt = true
		}
	}
	if f.Header {
		l = append(l, "header")
	}
	if f.WholeScores && seen["score"] {
		l = append(l, "whole-scores-at-precision-0")
	}
	if nt {
		l = append(l, vlib.NT)
	}
	return l
}

func TestGff(t *testing.T) {
	vlib.Run(t, vlib.Prop[iogen.GffFile]{Name: "gff-roundtrip", Checks: 4000, Thorough: 300000,
		Gen:   func(t *rapid.T) iogen.GffFile { return iogen.GenGffFile(t, 8) },
		Check: checkGff, Classes: gffClasses,
		MinFrac: map[string]float64{"attrs>=2": 0.2, "attrs+comments": 0.1, "infinite-score": 0.012, "inline-seq-multiline": 0.07, "kind-region": 0.2, "start=0": 0.1, "negative-start": 0.05, "line>4096": 0.01}})
}
