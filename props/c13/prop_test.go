//go:build verif

// C13 — external sort never hides I/O failures and leaves no temporary files behind.
//
// Faults are produced by sabotaging the real file or directory at a verif step
// hook just before the real operation runs (close the *os.File, remove the
// directory, overwrite the file with garbage), so the library's own error
// paths are exercised; no hook returns an injected error.
package c13

import (
	"fmt"
	"os"
	"strings"
	"testing"
	"time"

	"github.com/biogo/biogo/morass"
	"pgregory.net/rapid"

	mx "verif/internal/morassx"
	"verif/internal/sched"
	"verif/internal/vlib"
)

func TestMain(m *testing.M) { vlib.Main(m, "C13"); os.Exit(0) }

type faultCase struct {
	H      mx.History   `json:"history"`
	Fault  sched.Fault  `json:"fault"`
	Fault2 *sched.Fault `json:"fault2,omitempty"` // a second failing operation (sampled pairs)
	Rules  []sched.Rule `json:"rules,omitempty"`
	// EarlyCleanUp: when the run has ended on an error the caller calls CleanUp at once, without
	// waiting for background writers that may still be at work (they finish afterwards)
	EarlyCleanUp bool `json:"early_cleanup,omitempty"`
}

// fault points: step -> actions that make the operation following it fail
var faultPoints = []struct {
	step    string
	actions []string
	op      string
}{
	{"write-before-tempfile", []string{"rmdir"}, "TempFile"},
	{"write-file-created", []string{"close", "readonly"}, "first Encode"},
	{"write-before-encode", []string{"close", "readonly", "readonly-once"}, "Encode"},
	{"write-before-sync", []string{"close", "einval-once"}, "Sync"},
	{"finalise-before-seek", []string{"close", "truncate", "einval-once"}, "Seek"},
	{"finalise-before-decode", []string{"close", "corrupt", "truncate"}, "Decode (Finalise)"},
	{"pull-before-decode", []string{"close", "corrupt", "truncate"}, "Decode (Pull)"},
}

func workload(chunk, n int, structT, concurrent bool) mx.History {
	c := mx.Cycle{Pull: -1}
	for i := 0; i < n; i++ {
		c.Keys = append(c.Keys, (i*7+3)%11)
	}
	return mx.History{Chunk: chunk, Struct: structT, Concurrent: concurrent, Cycles: []mx.Cycle{c}}
}

// bigWorkload has runs larger than the 4 KiB read buffer of the gob decoder, so that reads
// happen during Pull (small runs are read completely when Finalise primes them).
func bigWorkload(conc bool) mx.History { return workload(300, 700, true, conc) }

func isBig(h mx.History) bool { return h.Chunk >= 100 }

// drainVariant: the same workload on a sorter with AutoClear set whose caller pulls on after a failed
// Pull, and clears the sorter and runs a second, healthy cycle after any other failure; every drain
// that completes is followed by a look into the sorter's directory.
func drainVariant(h mx.History) mx.History {
	h.AutoClear, h.Recover, h.PullThrough = true, true, true
	second := mx.Cycle{Pull: -1}
	for i := 0; i < h.Chunk+2 && i < 12; i++ {
		second.Keys = append(second.Keys, (i*5+2)%9)
	}
	h.Cycles = append(append([]mx.Cycle(nil), h.Cycles...), second)
	return h
}

// cleanVariant: the same workload on a sorter with AutoClean set whose caller pulls on after a failed
// Pull until io.EOF: the directory is gone after that drain.
func cleanVariant(h mx.History) mx.History {
	h.AutoClean, h.PullThrough = true, true
	return h
}

func workloads() []mx.History {
	var ws []mx.History
	for _, conc := range []bool{false, true} {
		ws = append(ws, bigWorkload(conc), drainVariant(bigWorkload(conc)), cleanVariant(bigWorkload(conc)))
		ws = append(ws, workload(2, 5, false, conc), workload(3, 9, true, conc), drainVariant(workload(2, 5, true, conc)))
		if vlib.Thorough() {
			ws = append(ws, workload(1, 4, false, conc), workload(4, 8, true, conc), workload(2, 4, true, conc), workload(3, 10, false, conc))
		}
	}
	return ws
}

const residueAfterDrain = "run-files-left-by-a-drain-with-autoclear"

type runResult struct {
	out        mx.Outcome
	err        *mx.Err
	sc         *sched.Scheduler
	panic      interface{}
	timeout    bool
	cleanupErr error
	residue    string // the sorter's directory if it still exists after CleanUp
	// earlyResidue: CleanUp was called while writers were still running, returned nil, and the
	// directory exists again after they have finished
	earlyResidue bool
}

func execute(h mx.History, faults []sched.Fault, rules []sched.Rule) runResult {
	return executeWith(h, faults, rules, false)
}

func executeWith(h mx.History, faults []sched.Fault, rules []sched.Rule, earlyCleanUp bool) runResult {
	s, err := mx.NewSorter(h)
	if err != nil {
		return runResult{err: &mx.Err{Kind: "setup", Msg: err.Error()}}
	}
	sc := sched.New(rules, faults)
	sc.Dir = s.OwnDir()
	morass.VerifHook = sc.Hook
	defer func() { morass.VerifHook = nil }()
	done := make(chan runResult, 1)
	go func() {
		defer func() {
			if r := recover(); r != nil {
				done <- runResult{panic: r, sc: sc}
			}
		}()
		out, e := mx.RunWith(h, s, true, func(ev string) *mx.Err {
			sc.Mark(ev)
			if h.AutoClear && strings.HasPrefix(ev, "drained") && sc.Count("write-received") == sc.Count("write-return-buffer") {
				// a drain with AutoClear set has just completed (whatever failed earlier): no run files
				if fs := s.RunFiles(); len(fs) > 0 {
					return &mx.Err{Kind: residueAfterDrain, Msg: fmt.Sprintf("after the event %q, with AutoClear set, the sorter's directory still holds %v", ev, fs)}
				}
				vlib.Count("autoclear-drains-checked-for-run-files", 1)
			}
			if h.AutoClean && strings.HasPrefix(ev, "drained") && strings.HasSuffix(ev, fmt.Sprint(" ", len(h.Cycles)-1)) && sc.Count("write-received") == sc.Count("write-return-buffer") {
				// the last cycle of a sorter with AutoClean has been drained (whatever failed on the way)
				if d := s.OwnDir(); d != "" {
					return &mx.Err{Kind: residueAfterDrain, Msg: fmt.Sprintf("after the event %q, with AutoClean set, the sorter's directory %s still exists", ev, d)}
				}
				vlib.Count("autoclean-drains-checked-for-the-directory", 1)
			}
			return nil
		})
		done <- runResult{out: out, err: e, sc: sc}
	}()
	var res runResult
	got := false
	select {
	case res = <-done:
		got = true
	case <-time.After(10 * time.Second):
		if vlib.ConfirmDeadlock(150*time.Second, func() bool {
			select {
			case res = <-done:
				got = true
			default:
			}
			return got
		}) {
			res = runResult{timeout: true, sc: sc}
		}
	}
	// let every background writer that was handed a run finish (after an error the caller has not
	// gone through Finalise, which is what normally waits for them). On a busy machine that can
	// take a while; CleanUp is only asserted once the writers are quiescent.
	// (Finalise writes the last run itself, on the caller's goroutine: those writes pass the writer
	// steps without a hand-off and are left out of the count)
	quiescent := func() bool {
		caller, handoffs, received, returned := -1, 0, 0, 0
		for _, e := range sc.Events() {
			switch {
			case caller < 0 && strings.HasPrefix(e.Step, "cycle-start"):
				caller = e.GID
			case e.Step == "push-handoff":
				handoffs++
			case e.Step == "write-received" && e.GID != caller:
				received++
			case e.Step == "write-return-buffer" && e.GID != caller:
				returned++
			}
		}
		return received == handoffs && returned == received
	}
	early := false
	if earlyCleanUp && !res.timeout && res.panic == nil && res.out.FirstError != nil && !quiescent() {
		// the caller gives up as soon as it has seen the error; writers still running carry on (the
		// hooks stay installed for them) and must not bring the directory back
		early = true
		res.cleanupErr = s.M.CleanUp()
		vlib.Count("cleanup-called-while-writers-were-still-running", 1)
	}
	for i := 0; i < 10000 && !quiescent(); i++ {
		time.Sleep(time.Millisecond)
	}
	if early {
		if quiescent() && res.cleanupErr == nil {
			res.residue = s.OwnDir()
			res.earlyResidue = res.residue != ""
		}
		morass.VerifHook = nil
	} else if !res.timeout && quiescent() {
		// whatever happened before, CleanUp removes the sorter's directory
		morass.VerifHook = nil
		res.cleanupErr = s.M.CleanUp()
		res.residue = s.OwnDir()
	} else if !res.timeout {
		vlib.Count("cleanup-not-asserted-writers-still-running", 1)
	}
	s.Close()
	return res
}

func checkFault(c faultCase) *vlib.Failure {
	faults := []sched.Fault{c.Fault}
	if c.Fault2 != nil {
		faults = append(faults, *c.Fault2)
	}
	res := executeWith(c.H, faults, c.Rules, c.EarlyCleanUp)
	what := fmt.Sprintf("fault %s at %s#%d (chunk %d, %d values, concurrent=%v)", c.Fault.Action, c.Fault.Step, c.Fault.Occ, c.H.Chunk, len(c.H.Cycles[0].Keys), c.H.Concurrent)
	if c.Fault2 != nil {
		what += fmt.Sprintf(" and %s at %s#%d", c.Fault2.Action, c.Fault2.Step, c.Fault2.Occ)
	}
	if len(c.H.Cycles) > 1 {
		what += fmt.Sprintf(", then Clear and a second cycle of %d values", len(c.H.Cycles[1].Keys))
	}
	switch {
	case res.timeout:
		return vlib.Failf("deadlock", "%s: run did not finish; events: %s", what, res.sc.Trace(60))
	case res.panic != nil:
		return vlib.Failf("panic", "%s: %v; events: %s", what, res.panic, res.sc.Trace(60))
	case res.err != nil && res.err.Kind == residueAfterDrain:
		return vlib.Failf(residueAfterDrain, "%s: %s (first error before that: %v; sabotage applied: %v)", what, res.err.Msg, res.out.FirstError, res.sc.Applied())
	case res.err != nil:
		// every call reported success (or the run ended on an error elsewhere) yet the values differ
		if res.out.FirstError == nil {
			return vlib.Failf("silent-"+res.err.Kind, "%s: every Push, Finalise and Pull reported success but %s; sabotage applied: %v", what, res.err.Msg, res.sc.Applied())
		}
		return vlib.Failf("wrong-values-before-error-"+res.err.Kind, "%s: %s (first error later: %v)", what, res.err.Msg, res.out.FirstError)
	}
	if res.earlyResidue {
		return vlib.Failf("directory-back-after-cleanup", "%s: CleanUp, called right after the error while background writers were still running, returned nil; once they had finished the directory %s existed again (sabotage applied: %v; events: %s)", what, res.residue, res.sc.Applied(), res.sc.Trace(60))
	}
	if c.Fault.Step == "finalise-before-seek" && c.Fault.Action == "einval-once" && c.Fault2 == nil && len(res.sc.Applied()) > 0 && !strings.HasSuffix(res.sc.Applied()[0], ": ") && res.out.FirstError == nil && res.panic == nil {
		// a pipe was in the run file's place for the Seek: it failed for certain (the read after it,
		// on the real file again, only sees the end of the run)
		return vlib.Failf("failed-seek-not-reported", "%s: the Seek after the sabotage (%v) failed for certain, yet every Push, Finalise and Pull reported success", what, res.sc.Applied())
	}
	if c.Fault.Step == "write-before-sync" && c.Fault2 == nil && len(res.sc.Applied()) > 0 && strings.Contains(res.sc.Applied()[0], ": ") && !strings.HasSuffix(res.sc.Applied()[0], ": ") && res.out.FirstError == nil {
		// the Sync that followed the sabotage cannot have succeeded (closed file, or a pipe in its place):
		// whatever the values look like, some call has to report it
		return vlib.Failf("failed-sync-not-reported", "%s: the Sync after the sabotage (%v) failed for certain, yet every Push, Finalise and Pull reported success", what, res.sc.Applied())
	}
	if c.Fault.Step == "write-before-tempfile" && c.Fault.Action == "rmdir" && c.Fault2 == nil && len(res.sc.Applied()) > 0 && strings.Contains(res.sc.Applied()[0], "removed ") && res.out.FirstError == nil {
		// the sorter's directory was gone when the run file was to be created in it: that creation failed
		// for certain, wherever the values went instead
		return vlib.Failf("failed-creation-not-reported", "%s: the run file could not be created in the sorter's directory (%v), yet every Push, Finalise and Pull reported success", what, res.sc.Applied())
	}
	if res.residue != "" {
		return vlib.Failf("cleanup-leaves-directory-after-fault", "%s: CleanUp returned %v and the directory %s still exists (sabotage applied: %v)", what, res.cleanupErr, res.residue, res.sc.Applied())
	}
	if res.out.Recovered > 0 {
		vlib.Count("second-cycle-after-error-and-clear", 1)
	}
	applied := len(res.sc.Applied()) > 0
	switch {
	case applied && res.out.FirstError != nil:
		vlib.Count("faults-surfaced-as-error", 1)
	case applied:
		vlib.Count("faults-harmless-values-complete", 1)
	default:
		vlib.Count("fault-point-not-reached", 1)
	}
	return nil
}

// TestSingleFaults enumerates every I/O step of the listed workloads as the failing one.
func TestSingleFaults(t *testing.T) {
	vlib.RunEnum(t, vlib.Enum[faultCase]{Name: "single-fault-enumeration", DistinctByConstruction: true,
		Each: func(yield func(faultCase) bool) {
			for _, h := range workloads() {
				clean := execute(h, nil, nil)
				if clean.err != nil || clean.out.FirstError != nil || clean.sc == nil {
					continue
				}
				for _, fp := range faultPoints {
					n := clean.sc.Count(fp.step)
					stride := 1
					if isBig(h) && n > 20 {
						stride = 41 // sampled, not exhaustive, for the large workload
					}
					for occ := 0; occ < n; occ += stride {
						for _, a := range fp.actions {
							if !yield(faultCase{H: h, Fault: sched.Fault{Step: fp.step, Occ: occ, Action: a}}) {
								return
							}
						}
					}
				}
			}
		},
		Check: checkFault,
		Classes: func(c faultCase) []string {
			mode := "sequential"
			if c.H.Concurrent {
				mode = "concurrent"
			}
			l := []string{c.Fault.Step + "/" + c.Fault.Action, mode, vlib.NT}
			if isBig(c.H) {
				l = append(l, "run-larger-than-read-buffer")
			}
			return l
		}})
}

// TestFaultWithSchedule pairs a fault with hold rules in concurrent mode.
func TestFaultWithSchedule(t *testing.T) {
	vlib.Run(t, vlib.Prop[faultCase]{Name: "fault-and-schedule-pairs", Checks: 150, Thorough: 8000,
		Gen: func(t *rapid.T) faultCase {
			chunk := rapid.IntRange(1, 4).Draw(t, "chunk")
			nchunks := rapid.IntRange(2, 4).Draw(t, "nchunks")
			n := nchunks*chunk + rapid.SampledFrom([]int{0, 1}).Draw(t, "tail")
			h := workload(chunk, n, rapid.Bool().Draw(t, "struct"), true)
			fp := faultPoints[rapid.IntRange(0, len(faultPoints)-1).Draw(t, "fault-point")]
			c := faultCase{H: h, Fault: sched.Fault{Step: fp.step, Occ: rapid.IntRange(0, nchunks).Draw(t, "fault-occ"), Action: rapid.SampledFrom(fp.actions).Draw(t, "action")}}
			if fp.step == "write-before-encode" {
				c.Fault.Occ = rapid.IntRange(0, n-1).Draw(t, "fault-enc-occ")
			}
			steps := []string{"write-received", "write-before-tempfile", "write-file-created", "write-before-encode", "write-before-sync", "write-return-buffer", "push-handoff", "push-got-buffer", "finalise-entry"}
			nr := rapid.IntRange(1, 3).Draw(t, "nrules")
			for i := 0; i < nr; i++ {
				c.Rules = append(c.Rules, sched.Rule{Step: rapid.SampledFrom(steps).Draw(t, "step"), Occ: rapid.IntRange(0, nchunks).Draw(t, "occ"),
					Until: rapid.SampledFrom(steps).Draw(t, "until"), UntilOcc: rapid.IntRange(0, nchunks).Draw(t, "until-occ"), TimeoutMs: rapid.SampledFrom([]int{20, 50}).Draw(t, "timeout")})
			}
			switch rapid.IntRange(0, 5).Draw(t, "extra") {
			case 0: // two writers fail one after the other
				c.Fault = sched.Fault{Step: "write-before-encode", Occ: rapid.IntRange(0, chunk-1).Draw(t, "f1-enc"), Action: rapid.SampledFrom([]string{"readonly", "close"}).Draw(t, "f1-action")}
				c.Fault2 = &sched.Fault{Step: "write-before-encode", Occ: chunk + rapid.IntRange(0, chunk-1).Draw(t, "f2-enc"), Action: rapid.SampledFrom([]string{"readonly", "close"}).Draw(t, "f2-action")}
			case 1, 2: // the failing operation belongs to the last (synchronous) write; then Clear and use the sorter again
				c.H = workload(chunk, nchunks*chunk+1, h.Struct, true)
				c.Fault = sched.Fault{Step: rapid.SampledFrom([]string{"write-before-encode", "write-file-created"}).Draw(t, "last-step"), Action: "readonly"}
				if c.Fault.Step == "write-before-encode" {
					c.Fault.Occ = nchunks * chunk
				} else {
					c.Fault.Occ = nchunks
				}
				second := mx.Cycle{Pull: -1}
				for i, m := 0, rapid.IntRange(chunk, 3*chunk+1).Draw(t, "second-n"); i < m; i++ {
					second.Keys = append(second.Keys, (i*5+2)%9)
				}
				c.H.Recover = true
				c.H.AutoClear = rapid.Bool().Draw(t, "auto-clear")
				c.H.PullThrough = rapid.Bool().Draw(t, "pull-through")
				c.H.Cycles = append(c.H.Cycles, second)
				if rapid.Bool().Draw(t, "fault-in-second-cycle") {
					// the cycle after the failed one fails as well: that failure, too, has to surface
					c.Fault2 = &sched.Fault{After: "cycle-start 1", Step: "write-before-encode", Occ: rapid.IntRange(0, len(second.Keys)-1).Draw(t, "f2-enc-second"),
						Action: rapid.SampledFrom([]string{"readonly", "close", "readonly-once"}).Draw(t, "f2-action-second")}
				}
			}
			c.EarlyCleanUp = rapid.IntRange(0, 2).Draw(t, "early-cleanup") == 1
			if c.Fault2 == nil && len(c.H.Cycles) == 1 && rapid.IntRange(0, 5).Draw(t, "straggler-template") == 4 {
				// the first writer fails at once; the second is still before its file creation (held
				// there) when the caller sees the error and cleans up
				c.Fault = sched.Fault{Step: "write-before-encode", Occ: 0, Action: rapid.SampledFrom([]string{"readonly", "close"}).Draw(t, "straggler-action")}
				c.Rules = []sched.Rule{{Step: rapid.SampledFrom([]string{"write-received", "write-before-tempfile"}).Draw(t, "straggler-step"), Occ: 1, Until: "finalise-returned", TimeoutMs: rapid.SampledFrom([]int{60, 120}).Draw(t, "straggler-ms")}}
				c.EarlyCleanUp = true
			}
			if rapid.IntRange(0, 2).Draw(t, "overwrite-template") == 0 && c.Fault2 == nil && len(c.H.Cycles) == 1 && !c.EarlyCleanUp {
				// a failing writer, then a later writer's success, before the caller looks again
				c.Fault = sched.Fault{Step: "write-before-encode", Occ: 0, Action: "readonly"}
				c.Rules = []sched.Rule{
					{Step: "write-before-encode", Occ: 0, Until: "push-handoff", UntilOcc: 1, TimeoutMs: 60},
					{Step: "write-before-sync", Occ: 0, Until: "write-return-buffer", UntilOcc: 0, TimeoutMs: 60},
					{Step: "push-got-buffer", Occ: 1, Until: "write-return-buffer", UntilOcc: 1, TimeoutMs: 60},
				}
			}
			return c
		},
		Check: checkFault,
		Classes: func(c faultCase) []string {
			l := []string{c.Fault.Step + "/" + c.Fault.Action, vlib.NT}
			if c.Fault2 != nil {
				l = append(l, "two-faults")
				if c.Fault2.After != "" {
					l = append(l, "fault-in-the-cycle-after-a-failed-cycle")
				}
			}
			if len(c.H.Cycles) > 1 {
				l = append(l, "reuse-after-failed-cycle")
			}
			if c.EarlyCleanUp {
				l = append(l, "cleanup-right-after-the-error")
			}
			return l
		},
		MinFrac: map[string]float64{"two-faults": 0.08, "reuse-after-failed-cycle": 0.15}})
}

// ---- residue ---------------------------------------------------------------------------

type residueCase struct {
	H       mx.History `json:"history"`
	CleanUp bool       `json:"cleanup"`
}

func checkResidue(c residueCase) *vlib.Failure {
	s, err := mx.NewSorter(c.H)
	if err != nil {
		return vlib.Failf("setup", "%v", err)
	}
	defer s.Close()
	lastDrained := false
	_, e := mx.RunWith(c.H, s, false, func(ev string) *mx.Err {
		if strings.HasPrefix(ev, "drained ") {
			var ci int
			fmt.Sscanf(ev, "drained %d", &ci)
			last := ci == len(c.H.Cycles)-1
			if last {
				lastDrained = true
			}
			if c.H.AutoClear && !(c.H.AutoClean && last) {
				if fs := s.RunFiles(); len(fs) != 0 {
					return &mx.Err{Kind: "autoclear-leaves-run-files", Msg: fmt.Sprintf("cycle %d drained with AutoClear set: run files %v remain", ci, fs)}
				}
			}
			if c.H.AutoClean && last {
				if d := s.OwnDir(); d != "" {
					return &mx.Err{Kind: "autoclean-leaves-directory", Msg: fmt.Sprintf("cycle %d (%d values, chunk %d) drained with AutoClean set: directory %s still exists", ci, len(c.H.Cycles[ci].Keys), c.H.Chunk, d)}
				}
			}
		}
		return nil
	})
	if e != nil {
		return &vlib.Failure{Kind: e.Kind, Msg: e.Msg}
	}
	_ = lastDrained
	if c.CleanUp {
		if err := s.M.CleanUp(); err != nil {
			return vlib.Failf("cleanup-error", "%v", err)
		}
		if d := s.OwnDir(); d != "" {
			return vlib.Failf("cleanup-leaves-directory", "directory %s still exists after CleanUp", d)
		}
	}
	return nil
}

func TestResidue(t *testing.T) {
	vlib.Run(t, vlib.Prop[residueCase]{Name: "file-system-residue", Checks: 1500, Thorough: 60000,
		Gen: func(t *rapid.T) residueCase {
			h := mx.History{Chunk: rapid.IntRange(1, 6).Draw(t, "chunk"), Struct: rapid.Bool().Draw(t, "struct"), AutoClear: rapid.Bool().Draw(t, "auto-clear"),
				AutoClean: rapid.Bool().Draw(t, "auto-clean"), Concurrent: rapid.Bool().Draw(t, "concurrent")}
			if rapid.IntRange(0, 2).Draw(t, "awkward-names") == 1 {
				h.Names = rapid.IntRange(1, 4).Draw(t, "names")
			}
			n := rapid.IntRange(1, 3).Draw(t, "ncycles")
			for i := 0; i < n; i++ {
				c := mx.Cycle{Pull: -1, Clear: true}
				cnt := rapid.SampledFrom([]int{0, 1, h.Chunk - 1, h.Chunk, h.Chunk + 1, 3 * h.Chunk}).Draw(t, "count")
				for k := 0; k < cnt; k++ {
					c.Keys = append(c.Keys, rapid.IntRange(0, 9).Draw(t, "key"))
				}
				if i < n-1 && rapid.IntRange(0, 3).Draw(t, "partial") == 0 && cnt > 0 {
					c.Pull = rapid.IntRange(0, cnt).Draw(t, "pull")
				}
				h.Cycles = append(h.Cycles, c)
			}
			h.Cycles[n-1].Clear = false
			return residueCase{H: h, CleanUp: rapid.Bool().Draw(t, "cleanup")}
		},
		Check: checkResidue,
		Classes: func(c residueCase) []string {
			var l []string
			last := c.H.Cycles[len(c.H.Cycles)-1]
			if c.H.AutoClean {
				if len(last.Keys) < c.H.Chunk {
					l = append(l, "autoclean/in-memory-drain")
				} else {
					l = append(l, "autoclean/disk-drain")
				}
			}
			if c.H.AutoClear {
				l = append(l, "autoclear")
			}
			if c.H.Names != 0 {
				l = append(l, "file-names-with-pattern-characters")
			}
			if c.CleanUp {
				l = append(l, "cleanup")
			}
			if len(c.H.Cycles) >= 2 || c.H.AutoClean || c.H.AutoClear {
				l = append(l, vlib.NT)
			}
			return l
		},
		MinFrac: map[string]float64{"autoclean/in-memory-drain": 0.1, "autoclean/disk-drain": 0.1, "autoclear": 0.3}})
}
