// C17 — alphabets map letters, indices and complements consistently.
package c17

import (
	"fmt"
	"os"
	"strings"
	"testing"

	"github.com/biogo/biogo/alphabet"
	"github.com/biogo/biogo/feat"
	"pgregory.net/rapid"

	"verif/internal/vlib"
)

func TestMain(m *testing.M) { vlib.Main(m, "C17"); os.Exit(0) }

// The built-in alphabets as the package documents them (definition strings
// copied from the documentation of the package variables, not read back from
// the library).
type builtin struct {
	Name    string
	A       alphabet.Alphabet
	Def     string // definition letters (case-insensitive)
	PairS   string // pairing definition
	PairC   string
	FourNuc bool
}

var builtins = []builtin{
	{"DNA", alphabet.DNA, "acgt", "acgtnxACGTNX-", "tgcanxTGCANX-", true},
	{"DNAgapped", alphabet.DNAgapped, "-acgt", "acgtnxACGTNX-", "tgcanxTGCANX-", false},
	{"DNAredundant", alphabet.DNAredundant, "-acmgrsvtwyhkdbn", "acmgrsvtwyhkdbnxACMGRSVTWYHKDBNX-", "tgkcysbawrdmhvnxTGKCYSBAWRDMHVNX-", false},
	{"RNA", alphabet.RNA, "acgu", "acgunxACGUNX-", "ugcanxUGCANX-", true},
	{"RNAgapped", alphabet.RNAgapped, "-acgu", "acgunxACGUNX-", "ugcanxUGCANX-", false},
	{"RNAredundant", alphabet.RNAredundant, "-acmgrsvuwyhkdbn", "acmgrsvuwyhkdbnxACMGRSVUWYHKDBNX-", "ugkcysbawrdmhvnxUGKCYSBAWRDMHVNX-", false},
	{"Protein", alphabet.Protein, "-abcdefghijklmnpqrstvwxyz*", "", "", false},
}

func lower(b byte) byte {
	if b >= 'A' && b <= 'Z' {
		return b + 32
	}
	return b
}
func upper(b byte) byte {
	if b >= 'a' && b <= 'z' {
		return b - 32
	}
	return b
}
func isLetter(b byte) bool { return lower(b) >= 'a' && lower(b) <= 'z' }

// checkAlphabetLetter checks every per-letter clause for letter l against the
// definition (def, cased) and the pairing (pairS -> pairC), all given as data.
func checkAlphabetLetter(a alphabet.Alphabet, def string, cased bool, pairS, pairC string, fourNuc bool, l byte) *vlib.Failure {
	// case preservation is a property of pairings written out case to case (all built-ins and the
	// generated case-insensitive ones); a case-sensitive definition may pair 'a' with 'A'.
	checkCase := !cased
	inDef := false
	defIdx := -1
	for i := 0; i < len(def); i++ {
		if def[i] == l || (!cased && lower(def[i]) == lower(l)) {
			inDef = true
			defIdx = i
		}
	}
	L := alphabet.Letter(l)
	if a.IsValid(L) != inDef {
		return vlib.Failf("validity", "IsValid(%q) = %v but membership in definition %q (cased=%v) is %v", l, a.IsValid(L), def, cased, inDef)
	}
	if a.ValidLetters()[l] != inDef {
		return vlib.Failf("validity", "ValidLetters()[%q] = %v, want %v", l, a.ValidLetters()[l], inDef)
	}
	idx := a.IndexOf(L)
	if !inDef {
		if idx >= 0 {
			return vlib.Failf("index-invalid", "IndexOf(%q) = %d for a letter outside the alphabet", l, idx)
		}
	} else {
		if idx != defIdx {
			return vlib.Failf("index", "IndexOf(%q) = %d, position in the definition is %d", l, idx, defIdx)
		}
		if idx < 0 || idx >= a.Len() {
			return vlib.Failf("index", "IndexOf(%q) = %d outside 0..Len-1 (Len %d)", l, idx, a.Len())
		}
		back := byte(a.Letter(idx))
		if cased && back != l || !cased && lower(back) != lower(l) {
			return vlib.Failf("letter-of-index", "Letter(IndexOf(%q)) = %q", l, back)
		}
		if (*a.LetterIndex())[l] != idx {
			return vlib.Failf("index", "LetterIndex()[%q] = %d, IndexOf = %d", l, (*a.LetterIndex())[l], idx)
		}
	}
	c, ok := a.(alphabet.Complementor)
	if !ok || pairS == "" {
		return nil
	}
	want, paired := l, false
	for i := 0; i < len(pairS); i++ {
		if pairS[i] == l {
			want, paired = pairC[i], true
		}
	}
	got, gok := c.Complement(L)
	if gok != paired {
		return vlib.Failf("complement-ok", "Complement(%q) ok = %v, the pairing definition pairs it: %v", l, gok, paired)
	}
	tab := c.ComplementTable()
	if paired {
		if byte(got) != want {
			return vlib.Failf("complement", "Complement(%q) = %q want %q", l, got, want)
		}
		back, bok := c.Complement(got)
		if !bok || byte(back) != l {
			return vlib.Failf("complement-involution", "Complement(Complement(%q)) = %q, %v", l, back, bok)
		}
		if checkCase && isLetter(l) && isLetter(byte(got)) && (l >= 'a') != (byte(got) >= 'a') {
			return vlib.Failf("complement-case", "Complement(%q) = %q changes case", l, got)
		}
		if inDef && !a.IsValid(got) {
			return vlib.Failf("complement-valid", "Complement(%q) = %q is not a valid letter although %q is", l, got, l)
		}
		if tab[l] != got {
			return vlib.Failf("complement-table", "ComplementTable()[%q] = %q, Complement = %q", l, tab[l], got)
		}
		if fourNuc && inDef {
			if ci := a.IndexOf(got); ci != 3-idx {
				return vlib.Failf("complement-index", "index of Complement(%q) = %d, want 3 - %d", l, ci, idx)
			}
		}
	} else {
		if byte(got) != l {
			return vlib.Failf("complement-unpaired", "Complement(%q) = %q for an unpaired letter (documented: unchanged)", l, got)
		}
		if l < 128 && tab[l] < 128 {
			return vlib.Failf("complement-table", "ComplementTable()[%q] = %d lacks the high bit that marks an unpaired letter", l, tab[l])
		}
	}
	return nil
}

// ---- exhaustive: 256 letters x 7 built-ins -----------------------------------

type builtinCase struct {
	Alphabet string `json:"alphabet"`
	Letter   int    `json:"letter"`
}

func TestBuiltins(t *testing.T) {
	vlib.RunEnum(t, vlib.Enum[builtinCase]{Name: "builtin-alphabets",
		Each: func(yield func(builtinCase) bool) {
			for _, b := range builtins {
				for l := 0; l < 256; l++ {
					if !yield(builtinCase{b.Name, l}) {
						return
					}
				}
			}
		},
		Check: func(c builtinCase) *vlib.Failure {
			for _, b := range builtins {
				if b.Name != c.Alphabet {
					continue
				}
				if b.A.Len() != len(b.Def) {
					return vlib.Failf("len", "%s.Len() = %d want %d", b.Name, b.A.Len(), len(b.Def))
				}
				if b.A.IsCased() {
					return vlib.Failf("cased", "%s is documented case-insensitive", b.Name)
				}
				for i := 0; i < len(b.Def); i++ {
					if got := b.A.IndexOf(b.A.Letter(i)); got != i {
						return vlib.Failf("index-of-letter", "%s: IndexOf(Letter(%d)) = %d", b.Name, i, got)
					}
				}
				if f := checkAlphabetLetter(b.A, b.Def, false, b.PairS, b.PairC, b.FourNuc, byte(c.Letter)); f != nil {
					f.Msg = b.Name + ": " + f.Msg
					return f
				}
			}
			return nil
		},
		Classes: func(c builtinCase) []string {
			for _, b := range builtins {
				if b.Name == c.Alphabet && strings.IndexByte(strings.ToLower(b.Def)+strings.ToUpper(b.Def)+b.PairS, byte(c.Letter)) >= 0 {
					return []string{c.Alphabet, vlib.NT}
				}
			}
			return []string{c.Alphabet}
		}})
}

// ---- generated definitions -----------------------------------------------------

type defCase struct {
	Letters string `json:"letters"`
	Cased   bool   `json:"cased"`
	Gap     int    `json:"gap"`
	Ambig   int    `json:"ambig"`
	// Perm defines an involution on the definition: letter i is paired with
	// letter Perm[i] (Perm[Perm[i]] == i); nil: plain alphabet.
	Perm  []int `json:"perm,omitempty"`
	Probe []int `json:"probe"` // letter slice for AllValid
	// LongN > 0: a second AllValid slice of LongN letters (1000..2100): the definition's letters
	// cycled, with the letters of LongBad (position, letter value) written over them
	LongN   int      `json:"long_n,omitempty"`
	LongBad [][2]int `json:"long_bad,omitempty"`
	Mol     int8     `json:"mol"`
	WithCo  bool     `json:"complementor"`
	// Wide (case-sensitive definitions only): the pairing is written for both cases, as the built-in ones
	// are, although the alphabet holds only the letters of the definition; the other-case pairs lie
	// outside the alphabet
	Wide bool `json:"wide_pairing,omitempty"`
}

func genDef(t *rapid.T) defCase {
	c := defCase{Cased: rapid.Bool().Draw(t, "cased"), Gap: rapid.IntRange(0, 255).Draw(t, "gap"), Ambig: rapid.IntRange(0, 255).Draw(t, "ambig"),
		Mol: int8(rapid.IntRange(-1, 2).Draw(t, "mol")), WithCo: rapid.Bool().Draw(t, "complementor")}
	c.Wide = c.Cased && rapid.Bool().Draw(t, "wide-pairing")
	n := rapid.IntRange(1, 20).Draw(t, "n")
	seen := map[byte]bool{}
	var b []byte
	for len(b) < n {
		var l byte
		if rapid.IntRange(0, 4).Draw(t, "punct") == 0 {
			l = byte(rapid.IntRange(0, 127).Draw(t, "ascii"))
		} else {
			l = "abcdefghijklmnopqrstuvwxyzABCDEFGHIJKLMNOPQRSTUVWXYZ"[rapid.IntRange(0, 51).Draw(t, "alpha")]
		}
		k := l
		if !c.Cased {
			k = lower(l)
		}
		if seen[k] {
			continue
		}
		seen[k] = true
		b = append(b, l)
	}
	c.Letters = string(b)
	if c.WithCo {
		c.Perm = make([]int, n)
		for i := range c.Perm {
			c.Perm[i] = i
		}
		// random involution: pair up a shuffled prefix
		idx := rapid.Permutation(c.Perm).Draw(t, "shuffle")
		pairs := rapid.IntRange(0, n/2).Draw(t, "npairs")
		for p := 0; p < pairs; p++ {
			x, y := idx[2*p], idx[2*p+1]
			c.Perm[x], c.Perm[y] = y, x
		}
	}
	m := rapid.IntRange(0, 12).Draw(t, "nprobe")
	for i := 0; i < m; i++ {
		if rapid.IntRange(0, 3).Draw(t, "probe-valid") > 0 {
			l := b[rapid.IntRange(0, n-1).Draw(t, "probe-i")]
			if !c.Cased && rapid.Bool().Draw(t, "probe-flip") {
				if l >= 'a' {
					l = upper(l)
				} else {
					l = lower(l)
				}
			}
			c.Probe = append(c.Probe, int(l))
		} else {
			c.Probe = append(c.Probe, rapid.IntRange(0, 255).Draw(t, "probe-any"))
		}
	}
	if rapid.IntRange(0, 9).Draw(t, "long-probe") == 4 {
		c.LongN = rapid.SampledFrom([]int{1000, 1023, 1024, 1025, 2048, 2100}).Draw(t, "long-n")
		for i, k := 0, rapid.IntRange(0, 3).Draw(t, "long-nbad"); i < k; i++ {
			c.LongBad = append(c.LongBad, [2]int{rapid.IntRange(0, c.LongN-1).Draw(t, "long-bad-pos"), rapid.IntRange(0, 255).Draw(t, "long-bad-letter")})
		}
	}
	return c
}

func (c defCase) pairing() (s, p string) {
	var sb, pb []byte
	for i, j := range c.Perm {
		x, y := c.Letters[i], c.Letters[j]
		if c.Cased {
			sb, pb = append(sb, x), append(pb, y)
			continue
		}
		// both cases written out, case to case
		sb, pb = append(sb, lower(x)), append(pb, lower(y))
		sb, pb = append(sb, upper(x)), append(pb, upper(y))
	}
	if c.Cased && c.Wide {
		inDef := map[byte]bool{}
		for i := 0; i < len(c.Letters); i++ {
			inDef[c.Letters[i]] = true
		}
		swap := func(b byte) byte {
			if b >= 'a' && b <= 'z' {
				return upper(b)
			}
			return lower(b)
		}
		for i, j := range c.Perm {
			x, y := c.Letters[i], c.Letters[j]
			if !isLetter(x) || !isLetter(y) {
				continue
			}
			if x2, y2 := swap(x), swap(y); !inDef[x2] && !inDef[y2] {
				sb, pb = append(sb, x2), append(pb, y2)
			}
		}
	}
	return string(sb), string(pb)
}

func caseMixSafe(c defCase) bool {
	// For case-insensitive alphabets a pair (letter, non-letter) cannot be
	// written out "case to case" as a bijection (a and A would both map to
	// the one symbol); such pairs are not generated.
	if c.Cased {
		return true
	}
	for i, j := range c.Perm {
		if i != j && isLetter(c.Letters[i]) != isLetter(c.Letters[j]) {
			return false
		}
	}
	return true
}

func checkDef(c defCase) *vlib.Failure {
	var a alphabet.Alphabet
	var err error
	ps, pc := "", ""
	if c.WithCo && caseMixSafe(c) {
		ps, pc = c.pairing()
		var p *alphabet.Pairing
		p, err = alphabet.NewPairing(ps, pc)
		if err != nil {
			return vlib.Failf("constructor-rejects-valid", "NewPairing(%q, %q): %v", ps, pc, err)
		}
		a, err = alphabet.NewComplementor(c.Letters, feat.Moltype(c.Mol), p, alphabet.Letter(c.Gap), alphabet.Letter(c.Ambig), c.Cased)
	} else {
		a, err = alphabet.NewAlphabet(c.Letters, feat.Moltype(c.Mol), alphabet.Letter(c.Gap), alphabet.Letter(c.Ambig), c.Cased)
	}
	if err != nil {
		return vlib.Failf("constructor-rejects-valid", "alphabet %q (cased=%v): %v", c.Letters, c.Cased, err)
	}
	if a.Len() != len(c.Letters) {
		return vlib.Failf("len", "Len() = %d for definition %q", a.Len(), c.Letters)
	}
	if a.IsCased() != c.Cased || a.Gap() != alphabet.Letter(c.Gap) || a.Ambiguous() != alphabet.Letter(c.Ambig) || a.Moltype() != feat.Moltype(c.Mol) {
		return vlib.Failf("attributes", "IsCased/Gap/Ambiguous/Moltype = %v/%d/%d/%v", a.IsCased(), a.Gap(), a.Ambiguous(), a.Moltype())
	}
	for i := 0; i < a.Len(); i++ {
		if got := a.IndexOf(a.Letter(i)); got != i {
			return vlib.Failf("index-of-letter", "IndexOf(Letter(%d)) = %d (definition %q, cased=%v)", i, got, c.Letters, c.Cased)
		}
		want := c.Letters[i]
		if got := byte(a.Letter(i)); c.Cased && got != want || !c.Cased && lower(got) != lower(want) {
			return vlib.Failf("letter-of-index", "Letter(%d) = %q, definition has %q", i, got, want)
		}
	}
	for l := 0; l < 256; l++ {
		if f := checkAlphabetLetter(a, c.Letters, c.Cased, ps, pc, false, byte(l)); f != nil {
			f.Msg = fmt.Sprintf("definition %q cased=%v pairing %q->%q: %s", c.Letters, c.Cased, ps, pc, f.Msg)
			return f
		}
	}
	// AllValid: position of the first invalid letter
	wantPos := -1
	ls := make([]alphabet.Letter, len(c.Probe))
	qs := make([]alphabet.QLetter, len(c.Probe))
	for i, p := range c.Probe {
		ls[i] = alphabet.Letter(p)
		qs[i] = alphabet.QLetter{L: alphabet.Letter(p), Q: 20}
		in := false
		for j := 0; j < len(c.Letters); j++ {
			if c.Letters[j] == byte(p) || (!c.Cased && lower(c.Letters[j]) == lower(byte(p))) {
				in = true
			}
		}
		if !in && wantPos < 0 {
			wantPos = i
		}
	}
	ok, pos := a.AllValid(ls)
	if ok != (wantPos < 0) || pos != wantPos {
		return vlib.Failf("allvalid", "AllValid(%v) = %v, %d; first invalid position is %d (definition %q cased=%v)", c.Probe, ok, pos, wantPos, c.Letters, c.Cased)
	}
	ok, pos = a.AllValidQLetter(qs)
	if ok != (wantPos < 0) || pos != wantPos {
		return vlib.Failf("allvalid", "AllValidQLetter(%v) = %v, %d; first invalid position is %d", c.Probe, ok, pos, wantPos)
	}
	if wantPos < 0 && len(ls) > 0 {
		// the same storage asked again after the caller wrote an invalid letter into it, and once more
		// after the letter was put back
		bad, found := byte(0), false
		for b := 255; b >= 0 && !found; b-- {
			if !a.IsValid(alphabet.Letter(b)) {
				bad, found = byte(b), true
			}
		}
		if found {
			at := len(ls) / 2
			keep, keepQ := ls[at], qs[at]
			ls[at], qs[at].L = alphabet.Letter(bad), alphabet.Letter(bad)
			if ok, pos := a.AllValid(ls); ok || pos != at {
				return vlib.Failf("allvalid", "AllValid on a slice found valid before, after %q was written at position %d = %v, %d (definition %q cased=%v)", bad, at, ok, pos, c.Letters, c.Cased)
			}
			if ok, pos := a.AllValidQLetter(qs); ok || pos != at {
				return vlib.Failf("allvalid", "AllValidQLetter on a slice found valid before, after %q was written at position %d = %v, %d", bad, at, ok, pos)
			}
			ls[at], qs[at] = keep, keepQ
			if ok, pos := a.AllValid(ls); !ok || pos != -1 {
				return vlib.Failf("allvalid", "AllValid after the valid letter was put back = %v, %d", ok, pos)
			}
		}
	}
	if c.LongN > 0 {
		inDef := func(p byte) bool {
			for j := 0; j < len(c.Letters); j++ {
				if c.Letters[j] == p || (!c.Cased && lower(c.Letters[j]) == lower(p)) {
					return true
				}
			}
			return false
		}
		long := make([]alphabet.Letter, c.LongN)
		longQ := make([]alphabet.QLetter, c.LongN)
		for i := range long {
			long[i] = alphabet.Letter(c.Letters[i%len(c.Letters)])
		}
		for _, b := range c.LongBad {
			long[b[0]] = alphabet.Letter(b[1])
		}
		want := -1
		for i, l := range long {
			longQ[i] = alphabet.QLetter{L: l, Q: 30}
			if want < 0 && !inDef(byte(l)) {
				want = i
			}
		}
		if ok, pos := a.AllValid(long); ok != (want < 0) || pos != want {
			return vlib.Failf("allvalid", "AllValid on %d letters with %v written in = %v, %d; first invalid position is %d (definition %q cased=%v)", c.LongN, c.LongBad, ok, pos, want, c.Letters, c.Cased)
		}
		if ok, pos := a.AllValidQLetter(longQ); ok != (want < 0) || pos != want {
			return vlib.Failf("allvalid", "AllValidQLetter on %d letters with %v written in = %v, %d; first invalid position is %d", c.LongN, c.LongBad, ok, pos, want)
		}
	}
	return nil
}

func TestGeneratedDefinitions(t *testing.T) {
	vlib.Run(t, vlib.Prop[defCase]{Name: "generated-definitions", Checks: 3000, Thorough: 200000, Gen: genDef, Check: checkDef,
		Classes: func(c defCase) []string {
			var l []string
			if c.Cased {
				l = append(l, "cased")
			} else {
				l = append(l, "uncased")
			}
			paired := 0
			for i, j := range c.Perm {
				if i != j {
					paired++
				}
			}
			if c.WithCo && caseMixSafe(c) {
				l = append(l, "complementor")
				if paired > 0 {
					l = append(l, "has-pairs")
				}
			}
			if len(c.Letters) >= 3 && paired > 0 && caseMixSafe(c) {
				l = append(l, vlib.NT)
			}
			return l
		},
		MinFrac: map[string]float64{"has-pairs": 0.12, "cased": 0.3, "uncased": 0.3}})
}

// ---- invalid definitions are rejected --------------------------------------------

type badDef struct {
	Kind    string `json:"kind"` // non-ascii-alphabet, non-ascii-pairing, length-mismatch, chain, one-way, two-to-one
	Letters string `json:"letters"`
	Pos     int    `json:"pos"`
	Rune    int    `json:"rune"`
	InC     bool   `json:"in_c"`
	Cased   bool   `json:"cased"`
}

var badKinds = []string{"non-ascii-alphabet", "non-ascii-pairing", "length-mismatch", "chain", "one-way", "two-to-one", "cycle"}

func genBad(t *rapid.T) badDef {
	n := rapid.IntRange(2, 12).Draw(t, "n")
	perm := rapid.Permutation([]byte("abcdefghijklmnopqrstuvwxyz")).Draw(t, "letters")
	return badDef{Kind: rapid.SampledFrom(badKinds).Draw(t, "kind"), Letters: string(perm[:n]), Pos: rapid.IntRange(0, n).Draw(t, "pos"),
		// 0x212a KELVIN SIGN and 0x130 lower-case to ASCII letters, 0x17f and 0x131 upper-case to them;
		// negative values stand for the bare byte -v (not valid UTF-8 on its own)
		Rune: rapid.SampledFrom([]int{0x80, 0xe9, 0x3b1, 0x4e16, 0x1f600, 0xff, 0x212a, 0x130, 0x17f, 0x131, -0x80, -0xe9, -0xff, -0xc3}).Draw(t, "rune"), InC: rapid.Bool().Draw(t, "in-c"), Cased: rapid.Bool().Draw(t, "cased")}
}

func checkBad(c badDef) *vlib.Failure {
	n := len(c.Letters)
	pos := c.Pos % (n + 1)
	bad := string(rune(c.Rune))
	if c.Rune < 0 {
		bad = string([]byte{byte(-c.Rune)})
	}
	ins := func(s string) string { return s[:pos] + bad + s[pos:] }
	switch c.Kind {
	case "non-ascii-alphabet":
		def := ins(c.Letters)
		if a, err := alphabet.NewAlphabet(def, feat.DNA, '-', 'n', c.Cased); err == nil {
			return vlib.Failf("accepts-non-ascii", "NewAlphabet(%q) accepted a non-ASCII definition (Len %d)", def, a.Len())
		}
		p, _ := alphabet.NewPairing(c.Letters, c.Letters)
		if a, err := alphabet.NewComplementor(def, feat.DNA, p, '-', 'n', c.Cased); err == nil {
			return vlib.Failf("accepts-non-ascii", "NewComplementor(%q) accepted a non-ASCII definition (Len %d)", def, a.Len())
		}
	case "non-ascii-pairing":
		s, co := c.Letters, c.Letters
		r := bad
		if pos >= n {
			pos = n - 1
		}
		// replace one letter by a non-ASCII rune and pad the other side so that byte lengths agree
		if c.InC {
			co = co[:pos] + r + co[pos+1:]
			s += strings.Repeat("z", len(co)-len(s))
		} else {
			s = s[:pos] + r + s[pos+1:]
			co += strings.Repeat("z", len(s)-len(co))
		}
		if _, err := alphabet.NewPairing(s, co); err == nil {
			return vlib.Failf("accepts-non-ascii", "NewPairing(%q, %q) accepted a non-ASCII definition", s, co)
		}
		// the same non-ASCII letter on both sides (paired with itself), and paired with an ASCII letter both ways
		both := c.Letters[:pos] + r + c.Letters[pos:]
		if _, err := alphabet.NewPairing(both, both); err == nil {
			return vlib.Failf("accepts-non-ascii", "NewPairing(%q, %q) accepted a non-ASCII definition", both, both)
		}
		x, y := c.Letters[:1]+r, r+c.Letters[:1]
		if _, err := alphabet.NewPairing(x, y); err == nil {
			return vlib.Failf("accepts-non-ascii", "NewPairing(%q, %q) accepted a non-ASCII definition", x, y)
		}
	case "length-mismatch":
		if _, err := alphabet.NewPairing(c.Letters, c.Letters[:n-1]); err == nil {
			return vlib.Failf("accepts-mismatch", "NewPairing(%q, %q) accepted definitions of different length", c.Letters, c.Letters[:n-1])
		}
		if _, err := alphabet.NewPairing(c.Letters[:n-1], c.Letters); err == nil {
			return vlib.Failf("accepts-mismatch", "NewPairing(%q, %q) accepted definitions of different length", c.Letters[:n-1], c.Letters)
		}
	case "chain": // a->b, b->c (needs three letters)
		if n < 3 {
			return nil
		}
		s, co := c.Letters[:2], c.Letters[1:3]
		if _, err := alphabet.NewPairing(s, co); err == nil {
			return vlib.Failf("accepts-non-bijection", "NewPairing(%q, %q) accepted a chain", s, co)
		}
	case "one-way": // a->b only
		s, co := c.Letters[:1], c.Letters[1:2]
		if _, err := alphabet.NewPairing(s, co); err == nil {
			return vlib.Failf("accepts-non-bijection", "NewPairing(%q, %q) accepted a one-way pairing", s, co)
		}
	case "cycle": // a->b, b->c, c->a (and a longer one): a bijection on its letters that is not an involution
		if n < 3 {
			return nil
		}
		for k := 3; k <= n && k <= 5; k++ {
			s := c.Letters[:k]
			co := s[1:] + s[:1]
			if _, err := alphabet.NewPairing(s, co); err == nil {
				return vlib.Failf("accepts-non-bijection", "NewPairing(%q, %q) accepted a cycle of %d letters (complementing twice does not give the letter back)", s, co, k)
			}
			if k < n {
				// the same cycle next to a proper pair
				s2, co2 := s+c.Letters[k:k+1], co+c.Letters[k:k+1]
				if _, err := alphabet.NewPairing(s2, co2); err == nil {
					return vlib.Failf("accepts-non-bijection", "NewPairing(%q, %q) accepted a cycle of %d letters beside a self-paired letter", s2, co2, k)
				}
			}
		}
	case "two-to-one": // a->c, b->c, c->a
		if n < 3 {
			return nil
		}
		s := c.Letters[:3]
		co := string([]byte{s[2], s[2], s[0]})
		if _, err := alphabet.NewPairing(s, co); err == nil {
			return vlib.Failf("accepts-non-bijection", "NewPairing(%q, %q) accepted a two-to-one pairing", s, co)
		}
	}
	return nil
}

func TestInvalidDefinitions(t *testing.T) {
	vlib.Run(t, vlib.Prop[badDef]{Name: "invalid-definitions-rejected", Checks: 2000, Thorough: 100000, Gen: genBad, Check: checkBad,
		Classes: func(c badDef) []string { return []string{c.Kind, vlib.NT} }})
}
