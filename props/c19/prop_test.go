//go:build verif

// C19 — workers deliver each result once and stop cleanly; promises settle once.
package c19

import (
	"bytes"
	"encoding/json"
	"errors"
	"fmt"
	"os"
	"os/exec"
	"runtime"
	"sort"
	"strings"
	"sync"
	"sync/atomic"
	"testing"
	"time"

	"github.com/biogo/biogo/concurrent"
	"pgregory.net/rapid"

	"verif/internal/vlib"
)

func TestMain(m *testing.M) {
	if os.Getenv("VERIF_C19_CHILD") != "" {
		childMain()
		return
	}
	vlib.Main(m, "C19")
	os.Exit(0)
}

// ======================================================================= Processor (child process)

type procCase struct {
	Threads   int  `json:"threads"`
	Buffer    int  `json:"buffer"`
	QueueBuf  int  `json:"queue_buf"`
	Ops       int  `json:"ops"`
	ErrEvery  int  `json:"err_every"` // every k-th operation returns an error (0: none)
	CloseLate bool `json:"close_late"`
	HoldExit  bool `json:"hold_exit"` // hook: hold every worker at exit-token-returned until all workers are there
	Reps      int  `json:"reps"`
	MaxProcs  int  `json:"maxprocs"`
	PanicLast bool `json:"panic_last"` // the last submitted operation panics (documented: turned into an error result)
	// StopFirst: Stop is called before the queue is closed (as concurrent.Map does), once every
	// result has been taken; the workers still exit and the result channel is still closed
	StopFirst bool `json:"stop_first,omitempty"`
	// PanicFirst: the first submitted operation panics (only with two or more workers: a panic costs a
	// worker). The other workers may not even have started when that worker leaves.
	PanicFirst bool `json:"panic_first,omitempty"`
	// WaitFirst: the result buffer holds every result (Buffer >= Ops) and the caller submits, closes
	// the queue and waits for the workers before it collects anything
	WaitFirst bool `json:"wait_first,omitempty"`
}

type mapCall struct {
	Len     int `json:"len"`
	Chunk   int `json:"chunk"`
	Threads int `json:"threads"`
	FailAt  int `json:"fail_at"` // the chunk containing this index returns an error (-1: none)
	// NilEvery > 0: chunks whose start is a multiple of NilEvery return a nil value (and no error);
	// they still count as one result each
	NilEvery int `json:"nil_every,omitempty"`
	// ViaPromise: the call is PromiseMap and the result is what its promise's Wait delivers (twice)
	ViaPromise bool `json:"via_promise,omitempty"`
}

type childJob struct {
	Proc *procCase `json:"proc,omitempty"`
	Maps []mapCall `json:"maps,omitempty"`
}

type op struct {
	id    int
	err   bool
	panic bool
}

func (o op) Operation() (interface{}, error) {
	if o.panic {
		panic(fmt.Sprintf("op %d panics", o.id))
	}
	if o.err {
		return nil, fmt.Errorf("op %d failed", o.id)
	}
	return o.id, nil
}

func effThreads(threads int) int {
	if av := runtime.GOMAXPROCS(0); threads > av || threads < 1 {
		return av
	}
	return threads
}

func childFail(kind, format string, a ...interface{}) {
	fmt.Printf("CHILD-FAIL %s: %s\n", kind, fmt.Sprintf(format, a...))
	os.Exit(3)
}

// within reports whether f returns. After the first bound d it does not give up at once: a call
// that is still running on a busy machine is waited for, a call whose goroutines are all blocked
// on channels or locks is not (vlib.ConfirmDeadlock).
func within(d time.Duration, f func()) bool {
	limit := 45 * time.Second
	if os.Getenv("VERIF_C19_SHORT") != "" {
		// the parent has already seen a call that did not return: this run only serves to shrink or
		// to confirm that case, and waits much less
		d, limit = 5*time.Second, 10*time.Second
	}
	done := make(chan struct{})
	go func() { f(); close(done) }()
	select {
	case <-done:
		return true
	case <-time.After(d):
		fin := func() bool {
			select {
			case <-done:
				return true
			default:
				return false
			}
		}
		return !vlib.ConfirmDeadlock(limit, fin)
	}
}

func childMain() {
	var job childJob
	if err := json.Unmarshal([]byte(os.Getenv("VERIF_C19_CHILD")), &job); err != nil {
		childFail("setup", "%v", err)
	}
	if job.Proc != nil {
		runProc(*job.Proc)
	}
	for _, m := range job.Maps {
		runMap(m)
	}
	fmt.Println("CHILD-OK")
	os.Exit(0)
}

func runProc(c procCase) {
	if c.MaxProcs > 0 {
		runtime.GOMAXPROCS(c.MaxProcs)
	}
	eff := effThreads(c.Threads)
	for rep := 0; rep < c.Reps; rep++ {
		var arrived int32
		if c.HoldExit {
			concurrent.VerifHook = func(step string) {
				if step != "exit-token-returned" {
					return
				}
				atomic.AddInt32(&arrived, 1)
				deadline := time.Now().Add(40 * time.Millisecond)
				for atomic.LoadInt32(&arrived) < int32(eff) && time.Now().Before(deadline) {
					time.Sleep(50 * time.Microsecond)
				}
			}
		}
		queue := make(chan concurrent.Operator, c.QueueBuf)
		p := concurrent.NewProcessor(queue, c.Buffer, c.Threads)
		want := map[string]int{}
		ops := make([]concurrent.Operator, c.Ops)
		for i := range ops {
			o := op{id: i, err: c.ErrEvery > 0 && i%c.ErrEvery == 0}
			if c.PanicLast && i == c.Ops-1 || c.PanicFirst && i == 0 {
				o = op{id: i, panic: true}
			}
			ops[i] = o
			if o.panic {
				want[fmt.Sprintf("err:concurrent: processor panic: op %d panics", i)]++
			} else if o.err {
				want[fmt.Sprintf("err:op %d failed", i)]++
			} else {
				want[fmt.Sprintf("val:%d", i)]++
			}
		}
		collected := make(chan struct{})
		go func() {
			if !c.CloseLate && c.Ops == 0 {
				if c.StopFirst {
					p.Stop()
				}
				p.Close()
				return
			}
			p.Process(ops...)
			if c.StopFirst {
				// every result has been taken: asking the workers to stop now loses nothing, and the
				// queue is closed afterwards as always
				<-collected
				p.Stop()
			}
			p.Close()
		}()
		if c.WaitFirst {
			if !within(20*time.Second, p.Wait) {
				childFail("workers-do-not-exit", "rep %d: Wait did not return within 20 s after the queue was closed with %d results waiting in a result buffer of %d (%d workers)", rep, c.Ops, c.Buffer, eff)
			}
		}
		got := map[string]int{}
		ok := within(20*time.Second, func() {
			for i := 0; i < c.Ops; i++ {
				v, err := p.Result()
				switch {
				case err != nil:
					got["err:"+err.Error()]++
				case v != nil:
					got[fmt.Sprintf("val:%v", v)]++
				default:
					got["closed-early"]++
				}
			}
		})
		close(collected)
		if !ok {
			childFail("results-missing", "rep %d: fewer than %d results within 20 s (got %v)", rep, c.Ops, got)
		}
		for k, n := range want {
			if got[k] != n {
				childFail("result-multiset", "rep %d: result %q delivered %d times, want %d (all: %v)", rep, k, got[k], n, got)
			}
		}
		for k, n := range got {
			if want[k] != n {
				childFail("result-multiset", "rep %d: unexpected result %q x%d", rep, k, n)
			}
		}
		if !within(20*time.Second, p.Wait) {
			childFail("workers-do-not-exit", "rep %d: Wait did not return within 20 s after the queue was closed (%d workers)", rep, eff)
		}
		// the result channel is closed: a further Result returns the zero value at once
		var v interface{}
		var err error
		if !within(5*time.Second, func() { v, err = p.Result() }) {
			childFail("result-channel-not-closed", "rep %d: the result channel is still open after all workers exited", rep)
		}
		if v != nil || err != nil {
			childFail("extra-result", "rep %d: an extra result (%v, %v) after all operations were accounted for", rep, v, err)
		}
		if p.Working() != 0 {
			childFail("working-count", "rep %d: Working() = %d after all workers exited", rep, p.Working())
		}
		concurrent.VerifHook = nil
	}
}

type span struct{ i, j int }

type mapper struct {
	i, j, failAt int
	nilEvery     int
	seen         *spanLog // every chunk that was operated on, whatever it returned
}

type spanLog struct {
	mu    sync.Mutex
	spans []span
}

func (m mapper) Operation() (interface{}, error) {
	if m.failAt >= m.i && m.failAt < m.j {
		time.Sleep(time.Millisecond)
		return nil, fmt.Errorf("chunk [%d,%d) failed", m.i, m.j)
	}
	if m.seen != nil {
		m.seen.mu.Lock()
		m.seen.spans = append(m.seen.spans, span{m.i, m.j})
		m.seen.mu.Unlock()
	}
	if m.nilEvery > 0 && m.i%m.nilEvery == 0 {
		return nil, nil
	}
	return span{m.i, m.j}, nil
}
func (m mapper) Slice(i, j int) concurrent.Mapper {
	return mapper{m.i + i, m.i + j, m.failAt, m.nilEvery, m.seen}
}
func (m mapper) Len() int { return m.j - m.i }

func runMap(c mapCall) {
	var res []interface{}
	var err error
	seen := &spanLog{}
	call := func() { res, err = concurrent.Map(mapper{0, c.Len, c.FailAt, c.NilEvery, seen}, c.Threads, c.Chunk) }
	if c.ViaPromise {
		call = func() {
			p := concurrent.PromiseMap(mapper{0, c.Len, c.FailAt, c.NilEvery, seen}, c.Threads, c.Chunk)
			r := <-p.Wait()
			res, _ = r.Value.([]interface{})
			err = r.Err
			if again := <-p.Wait(); (again.Err == nil) != (r.Err == nil) || fmt.Sprint(again.Value) != fmt.Sprint(r.Value) {
				childFail("promise-map-waits-differ", "PromiseMap(len %d, threads %d, chunk %d): two Waits delivered (%v, %v) and (%v, %v)", c.Len, c.Threads, c.Chunk, r.Value, r.Err, again.Value, again.Err)
			}
		}
	}
	if !within(20*time.Second, call) {
		childFail("map-hangs", "Map(len %d, threads %d, chunk %d) did not return within 20 s", c.Len, c.Threads, c.Chunk)
	}
	if c.FailAt >= 0 && c.FailAt < c.Len {
		if err == nil {
			childFail("map-error-lost", "Map(len %d, threads %d, chunk %d) with a failing chunk returned no error", c.Len, c.Threads, c.Chunk)
		}
		// the goroutines Map leaves behind must not bring the process down
		time.Sleep(30 * time.Millisecond)
		return
	}
	if err != nil {
		childFail("map-error", "Map(len %d, threads %d, chunk %d): %v", c.Len, c.Threads, c.Chunk, err)
	}
	var spans []span
	nils := 0
	for _, r := range res {
		if r == nil && c.NilEvery > 0 {
			nils++
			continue
		}
		s, ok := r.(span)
		if !ok {
			childFail("map-result", "Map returned a %T", r)
		}
		spans = append(spans, s)
	}
	if c.NilEvery > 0 {
		// one result per chunk, nil-valued ones included: as many results as chunks were operated on,
		// and the chunks themselves (recorded by the operations) are what has to partition the input
		seen.mu.Lock()
		ops := append([]span(nil), seen.spans...)
		seen.mu.Unlock()
		wantNil := 0
		for _, sp := range ops {
			if sp.i%c.NilEvery == 0 {
				wantNil++
			}
		}
		if len(res) != len(ops) || nils != wantNil {
			childFail("map-result-count", "Map(len %d, threads %d, chunk %d): %d chunks were operated on (%d of them return a nil value), Map returned %d results (%d nil)", c.Len, c.Threads, c.Chunk, len(ops), wantNil, len(res), nils)
		}
		spans = ops
	}
	sort.Slice(spans, func(a, b int) bool { return spans[a].i < spans[b].i })
	pos := 0
	for _, s := range spans {
		if s.i != pos || s.j <= s.i || s.j-s.i > c.Chunk {
			childFail("map-partition", "Map(len %d, threads %d, chunk %d): chunks %v do not partition [0,%d) into pieces of at most %d", c.Len, c.Threads, c.Chunk, spans, c.Len, c.Chunk)
		}
		pos = s.j
	}
	if pos != c.Len {
		childFail("map-partition", "Map(len %d, threads %d, chunk %d): chunks %v cover [0,%d) only", c.Len, c.Threads, c.Chunk, spans, pos)
	}
}

// sawHang is set once a child has reported a call that did not return; later children (the shrinker's
// and the confirmation runs) use short bounds.
var sawHang atomic.Bool

var hangKinds = map[string]bool{"results-missing": true, "workers-do-not-exit": true, "result-channel-not-closed": true, "map-hangs": true}

func runChild(job childJob) *vlib.Failure {
	f := runChild1(job)
	if f != nil && hangKinds[f.Kind] {
		sawHang.Store(true)
	}
	return f
}

func runChild1(job childJob) *vlib.Failure {
	b, _ := json.Marshal(job)
	bin := os.Args[0]
	cmd := exec.Command(bin, "-test.run", "^$")
	cmd.Env = append(os.Environ(), "VERIF_C19_CHILD="+string(b), "VERIF_STATS=")
	if sawHang.Load() {
		cmd.Env = append(cmd.Env, "VERIF_C19_SHORT=1")
	}
	var out bytes.Buffer
	cmd.Stdout, cmd.Stderr = &out, &out
	done := make(chan error, 1)
	if err := cmd.Start(); err != nil {
		return nil // infrastructure: cannot start a child; counted, not a violation
	}
	go func() { done <- cmd.Wait() }()
	select {
	case err := <-done:
		s := out.String()
		if err == nil && strings.Contains(s, "CHILD-OK") {
			return nil
		}
		if i := strings.Index(s, "CHILD-FAIL "); i >= 0 {
			line := strings.SplitN(s[i+len("CHILD-FAIL "):], "\n", 2)[0]
			k := strings.SplitN(line, ": ", 2)
			if len(k) == 2 {
				return &vlib.Failure{Kind: k[0], Msg: k[1]}
			}
			return &vlib.Failure{Kind: "child-fail", Msg: line}
		}
		kind := "child-crash"
		for _, p := range []string{"close of closed channel", "send on closed channel", "all goroutines are asleep", "DATA RACE"} {
			if strings.Contains(s, p) {
				kind = "crash: " + p
			}
		}
		if len(s) > 1500 {
			s = s[:1500]
		}
		return &vlib.Failure{Kind: kind, Msg: fmt.Sprintf("child process died (%v): %s", err, s)}
	case <-time.After(300 * time.Second):
		cmd.Process.Kill()
		return vlib.Failf("child-hangs", "child process did not finish within 300 s")
	}
}

func TestProcessor(t *testing.T) {
	vlib.Run(t, vlib.Prop[procCase]{Name: "processor-scenarios", Checks: 320, Thorough: 12000,
		Gen: func(t *rapid.T) procCase {
			c := procCase{Threads: rapid.IntRange(1, 16).Draw(t, "threads"), Buffer: rapid.IntRange(0, 4).Draw(t, "buffer"), QueueBuf: rapid.IntRange(0, 4).Draw(t, "queue-buf"),
				CloseLate: rapid.Bool().Draw(t, "close-late"), HoldExit: rapid.IntRange(0, 2).Draw(t, "hold-exit") > 0, Reps: rapid.SampledFrom([]int{1, 3, 10}).Draw(t, "reps"),
				MaxProcs: rapid.SampledFrom([]int{0, 0, 2, 4}).Draw(t, "maxprocs")}
			switch rapid.IntRange(0, 3).Draw(t, "ops-class") {
			case 0:
				c.Ops = 0
			case 1:
				c.Ops = rapid.IntRange(0, max(0, c.Threads-1)).Draw(t, "ops-fewer")
			case 2:
				c.Ops = c.Threads
			default:
				c.Ops = c.Threads + rapid.IntRange(1, 30).Draw(t, "ops-more")
			}
			if rapid.Bool().Draw(t, "errors") {
				c.ErrEvery = rapid.IntRange(1, 5).Draw(t, "err-every")
			}
			c.PanicLast = c.Ops > 0 && rapid.IntRange(0, 3).Draw(t, "panic-last") == 0
			c.PanicFirst = c.Ops >= 2 && c.Threads >= 2 && rapid.IntRange(0, 3).Draw(t, "panic-first") == 2
			c.StopFirst = rapid.IntRange(0, 3).Draw(t, "stop-first") == 1
			if !c.StopFirst && rapid.IntRange(0, 3).Draw(t, "wait-first") == 2 {
				c.WaitFirst = true
				if c.Buffer < c.Ops {
					c.Buffer = c.Ops
				}
			}
			return c
		},
		Check: func(c procCase) *vlib.Failure { return runChild(childJob{Proc: &c}) },
		Classes: func(c procCase) []string {
			l := []string{}
			if c.HoldExit && c.Threads >= 2 {
				l = append(l, "workers-held-at-exit", vlib.NT)
			}
			if c.Ops == 0 {
				l = append(l, "no-operations")
			}
			if c.ErrEvery > 0 && c.Ops > 0 {
				l = append(l, "with-errors")
			}
			if c.PanicLast {
				l = append(l, "last-operation-panics")
			}
			if c.PanicFirst {
				l = append(l, "first-operation-panics")
			}
			if c.StopFirst {
				l = append(l, "stop-before-close")
			}
			if c.WaitFirst && c.Ops > 0 {
				l = append(l, "wait-before-any-result-is-collected")
			}
			return l
		},
		MinFrac: map[string]float64{"workers-held-at-exit": 0.3, "no-operations": 0.1}})
}

type mapBatch struct {
	Calls []mapCall `json:"calls"`
}

func TestMap(t *testing.T) {
	vlib.Run(t, vlib.Prop[mapBatch]{Name: "map-partitions", Checks: 60, Thorough: 3000,
		Gen: func(t *rapid.T) mapBatch {
			var b mapBatch
			n := rapid.IntRange(1, 20).Draw(t, "ncalls")
			for i := 0; i < n; i++ {
				b.Calls = append(b.Calls, mapCall{Len: rapid.OneOf(rapid.IntRange(0, 200), rapid.IntRange(0, 10)).Draw(t, "len"), Chunk: rapid.IntRange(1, 50).Draw(t, "chunk"), Threads: rapid.IntRange(1, 16).Draw(t, "threads"), FailAt: rapid.SampledFrom([]int{-1, -1, -1, 0, 3, 40}).Draw(t, "fail-at"), NilEvery: rapid.SampledFrom([]int{0, 0, 1, 2, 3}).Draw(t, "nil-every"), ViaPromise: rapid.IntRange(0, 2).Draw(t, "via-promise") == 0})
			}
			return b
		},
		Check: func(b mapBatch) *vlib.Failure {
			vlib.Count("map-calls", len(b.Calls))
			return runChild(childJob{Maps: b.Calls})
		},
		Classes: func(b mapBatch) []string {
			var l []string
			for _, c := range b.Calls {
				if c.Len > c.Chunk {
					l = append(l, vlib.NT)
				}
				if c.FailAt >= 0 && c.FailAt < c.Len && c.Len > 3*c.Chunk {
					l = append(l, "failing-chunk-with-chunks-unsent")
				}
				if c.ViaPromise && c.FailAt >= 0 && c.FailAt < c.Len {
					l = append(l, "promise-map-with-a-failing-chunk")
				}
			}
			return dedup(l)
		}, MinFrac: map[string]float64{"promise-map-with-a-failing-chunk": 0.3}})
}

func dedup(a []string) []string {
	m := map[string]bool{}
	var o []string
	for _, s := range a {
		if !m[s] {
			m[s] = true
			o = append(o, s)
		}
	}
	return o
}

// val maps a case value to the Go value handed to the promise: 0 is the untyped nil.
func val(v int) interface{} {
	if v == 0 {
		return nil
	}
	return v
}

// ======================================================================= Promise: sequential laws

type pop struct {
	Kind string `json:"kind"` // fulfill | fail | wait
	V    int    `json:"v"`
}

type promiseSeqCase struct {
	Mutable     bool  `json:"mutable"`
	Recoverable bool  `json:"recoverable"`
	Relay       bool  `json:"relay"`
	Ops         []pop `json:"ops"`
}

func waitResult(p *concurrent.Promise) (concurrent.Result, bool) {
	var r concurrent.Result
	ok := within(5*time.Second, func() { r = <-p.Wait() })
	return r, ok
}

func checkPromiseSeq(c promiseSeqCase) *vlib.Failure {
	p := concurrent.NewPromise(c.Mutable, c.Recoverable, c.Relay)
	set := false
	var cur interface{}
	var perr error
	relayed := false
	for i, o := range c.Ops {
		switch o.Kind {
		case "fulfill":
			var err error
			if !within(5*time.Second, func() { err = p.Fulfill(val(o.V)) }) {
				return vlib.Failf("blocks-forever", "op %d: Fulfill(%d) did not return (history %v)", i, o.V, c.Ops[:i+1])
			}
			switch {
			case perr != nil:
				if err == nil {
					return vlib.Failf("fulfill-after-fail-accepted", "op %d: Fulfill on a failed promise returned no error", i)
				}
			case !set || c.Mutable:
				if err != nil {
					return vlib.Failf("fulfill-rejected", "op %d: Fulfill(%d) on an %s promise returned %v", i, o.V, map[bool]string{true: "already set mutable", false: "unset"}[set], err)
				}
				set, cur = true, val(o.V)
			default:
				if err == nil {
					return vlib.Failf("second-fulfill-accepted", "op %d: Fulfill(%d) on an immutable promise already holding %v returned no error", i, o.V, cur)
				}
				if c.Relay {
					relayed = true // documented: the error is relayed to the promise
				}
			}
		case "fail":
			e := fmt.Errorf("failure %d", o.V)
			var ok bool
			if !within(5*time.Second, func() { ok = p.Fail(val(o.V), e) }) {
				return vlib.Failf("blocks-forever", "op %d: Fail(%d) did not return (history %v)", i, o.V, c.Ops[:i+1])
			}
			if want := !set; ok != want {
				return vlib.Failf("fail-result", "op %d: Fail returned %v on a promise that was set=%v", i, ok, set)
			}
			if !set {
				set, cur, perr = true, val(o.V), e
			}
		case "wait":
			if !set {
				continue // would block by design
			}
			r, ok := waitResult(p)
			if !ok {
				return vlib.Failf("wait-blocks", "op %d: Wait on a settled promise did not return", i)
			}
			if r.Value != cur {
				return vlib.Failf("wait-value", "op %d: Wait returned %v, the promise holds %v (history %v)", i, r.Value, cur, c.Ops[:i+1])
			}
			if !relayed && !errors.Is(r.Err, perr) && !(r.Err != nil && perr != nil && r.Err.Error() == perr.Error()) {
				return vlib.Failf("wait-error", "op %d: Wait returned error %v, the promise holds %v", i, r.Err, perr)
			}
			if relayed && perr == nil && r.Err == nil {
				return vlib.Failf("relay", "op %d: relay is set and a Fulfill was rejected, but Wait shows no error", i)
			}
		}
	}
	return nil
}

func TestPromiseSequential(t *testing.T) {
	vlib.Run(t, vlib.Prop[promiseSeqCase]{Name: "promise-sequential-laws", Checks: 3000, Thorough: 200000,
		Gen: func(t *rapid.T) promiseSeqCase {
			c := promiseSeqCase{Mutable: rapid.Bool().Draw(t, "mutable"), Recoverable: rapid.Bool().Draw(t, "recoverable"), Relay: rapid.Bool().Draw(t, "relay")}
			n := rapid.IntRange(1, 6).Draw(t, "nops")
			for i := 0; i < n; i++ {
				c.Ops = append(c.Ops, pop{Kind: rapid.SampledFrom([]string{"fulfill", "fulfill", "fail", "wait", "wait"}).Draw(t, "kind"), V: rapid.IntRange(0, 9).Draw(t, "v")})
			}
			return c
		},
		Check: checkPromiseSeq,
		Classes: func(c promiseSeqCase) []string {
			l := []string{fmt.Sprintf("flags=%v/%v/%v", c.Mutable, c.Recoverable, c.Relay)}
			f := 0
			for _, o := range c.Ops {
				if o.Kind == "fulfill" {
					f++
				}
			}
			if f >= 2 {
				l = append(l, "two-fulfills", vlib.NT)
			}
			for _, o := range c.Ops {
				if o.V == 0 && o.Kind != "wait" {
					l = append(l, "nil-value")
					break
				}
			}
			return l
		}})
}

// ======================================================================= Promise: concurrent sets under hold rules

type promiseConcCase struct {
	Recoverable bool  `json:"recoverable"`
	Relay       bool  `json:"relay"`
	Pre         []pop `json:"pre"`  // executed sequentially first
	Par         []pop `json:"par"`  // one goroutine each
	Hold        []int `json:"hold"` // per occurrence k of wait-taken: index of the goroutine whose completion is awaited (-1: no hold)
	TimeoutMs   int   `json:"timeout_ms"`
}

type opResult struct {
	kind string
	v    int
	err  error
	ok   bool
	res  concurrent.Result
	done bool
}

func checkPromiseConc(c promiseConcCase) *vlib.Failure {
	p := concurrent.NewPromise(false, c.Recoverable, c.Relay)
	var mu sync.Mutex
	doneG := map[int]bool{}
	takes := 0
	holdsThatWaited := 0
	concurrent.VerifHook = func(step string) {
		if step != "wait-taken" {
			return
		}
		mu.Lock()
		k := takes
		takes++
		mu.Unlock()
		if k >= len(c.Hold) || c.Hold[k] < 0 {
			return
		}
		target := c.Hold[k]
		deadline := time.Now().Add(time.Duration(c.TimeoutMs) * time.Millisecond)
		waited := false
		for {
			mu.Lock()
			d := doneG[target]
			mu.Unlock()
			if d || time.Now().After(deadline) {
				break
			}
			waited = true
			time.Sleep(50 * time.Microsecond)
		}
		if waited {
			mu.Lock()
			holdsThatWaited++
			mu.Unlock()
		}
	}
	defer func() { concurrent.VerifHook = nil }()

	run := func(o pop) opResult {
		r := opResult{kind: o.Kind, v: o.V}
		switch o.Kind {
		case "fulfill":
			r.err = p.Fulfill(o.V)
			r.ok = r.err == nil
		case "fail":
			r.ok = p.Fail(o.V, fmt.Errorf("failure %d", o.V))
		case "wait":
			r.res = <-p.Wait()
		}
		r.done = true
		return r
	}
	var results []opResult
	setters := 0
	for _, o := range c.Pre {
		if o.Kind == "wait" && setters == 0 {
			continue
		}
		if o.Kind != "wait" {
			setters++
		}
		var r opResult
		o := o
		if !within(5*time.Second, func() { r = run(o) }) {
			return vlib.Failf("blocks-forever", "sequential %s %d did not return (pre %v)", o.Kind, o.V, c.Pre)
		}
		results = append(results, r)
	}
	par := make([]opResult, len(c.Par))
	var wg sync.WaitGroup
	for i, o := range c.Par {
		if o.Kind != "wait" {
			setters++
		}
		wg.Add(1)
		go func(i int, o pop) {
			defer wg.Done()
			r := run(o)
			mu.Lock()
			par[i] = r
			doneG[i] = true
			mu.Unlock()
		}(i, o)
	}
	if setters == 0 {
		// nothing ever settles the promise: waiters block by design; settle it so that they can finish
		go p.Fulfill(99)
		results = append(results, opResult{kind: "fulfill", v: 99, ok: true, done: true})
	}
	finished := within(5*time.Second, wg.Wait)
	mu.Lock()
	snapshot := append([]opResult(nil), par...)
	hw := holdsThatWaited
	mu.Unlock()
	vlib.Count("wait-holds-that-reordered", hw)
	desc := fmt.Sprintf("pre %v par %v hold %v", c.Pre, c.Par, c.Hold)
	if !finished {
		var stuck []string
		for i, r := range snapshot {
			if !r.done {
				stuck = append(stuck, fmt.Sprintf("g%d:%s", i, c.Par[i].Kind))
			}
		}
		return vlib.Failf("blocks-forever", "%s: goroutines %v did not return within 5 s", desc, stuck)
	}
	results = append(results, snapshot...)
	// exactly one setter succeeds
	winners := 0
	var winVal int
	var winFail bool
	for _, r := range results {
		if r.kind != "wait" && r.ok {
			winners++
			winVal, winFail = r.v, r.kind == "fail"
		}
	}
	if winners != 1 {
		return vlib.Failf("settled-more-than-once", "%s: %d Fulfill/Fail calls succeeded on an immutable promise (results %s)", desc, winners, fmtResults(results))
	}
	for _, r := range results {
		if r.kind != "wait" {
			continue
		}
		if r.res.Value != winVal {
			return vlib.Failf("wait-value", "%s: a Wait returned %v, the one successful setter stored %d (results %s)", desc, r.res.Value, winVal, fmtResults(results))
		}
		if !c.Relay && (r.res.Err != nil) != winFail {
			return vlib.Failf("wait-error", "%s: a Wait returned error %v, winner was a Fail: %v", desc, r.res.Err, winFail)
		}
	}
	// a final Wait sees the same value
	fr, ok := waitResult(p)
	if !ok {
		return vlib.Failf("blocks-forever", "%s: a Wait after everything finished did not return", desc)
	}
	if fr.Value != winVal {
		return vlib.Failf("value-changed", "%s: the promise finally holds %v, the one successful setter stored %d", desc, fr.Value, winVal)
	}
	return nil
}

func fmtResults(rs []opResult) string {
	var b strings.Builder
	for _, r := range rs {
		switch r.kind {
		case "wait":
			fmt.Fprintf(&b, "[wait -> %v,%v] ", r.res.Value, r.res.Err)
		case "fulfill":
			fmt.Fprintf(&b, "[fulfill %d -> %v] ", r.v, r.err)
		default:
			fmt.Fprintf(&b, "[fail %d -> %v] ", r.v, r.ok)
		}
	}
	return b.String()
}

func TestPromiseConcurrent(t *testing.T) {
	vlib.Run(t, vlib.Prop[promiseConcCase]{Name: "promise-concurrent-sets", Checks: 600, Thorough: 40000,
		Gen: func(t *rapid.T) promiseConcCase {
			c := promiseConcCase{Recoverable: rapid.Bool().Draw(t, "recoverable"), Relay: rapid.Bool().Draw(t, "relay"), TimeoutMs: rapid.SampledFrom([]int{20, 40}).Draw(t, "timeout")}
			kinds := []string{"fulfill", "fulfill", "fail", "wait", "wait"}
			for i, n := 0, rapid.IntRange(0, 2).Draw(t, "npre"); i < n; i++ {
				c.Pre = append(c.Pre, pop{Kind: rapid.SampledFrom(kinds).Draw(t, "pre-kind"), V: 10 + i})
			}
			if len(c.Pre) > 0 && rapid.Bool().Draw(t, "pre-settles") {
				c.Pre[0].Kind = "fulfill" // the promise is already settled when the concurrent calls start
			}
			np := rapid.IntRange(2, 4).Draw(t, "npar")
			for i := 0; i < np; i++ {
				c.Par = append(c.Par, pop{Kind: rapid.SampledFrom(kinds).Draw(t, "par-kind"), V: 20 + i})
			}
			for i, n := 0, rapid.IntRange(0, 3).Draw(t, "nholds"); i < n; i++ {
				h := rapid.IntRange(-1, np-1).Draw(t, "hold-target")
				if h >= 0 && c.Par[h].Kind == "wait" && rapid.Bool().Draw(t, "prefer-setter") {
					// prefer holding the waiter until a setter has finished
					for k, o := range c.Par {
						if o.Kind != "wait" {
							h = k
							break
						}
					}
				}
				c.Hold = append(c.Hold, h)
			}
			return c
		},
		Check: checkPromiseConc,
		Classes: func(c promiseConcCase) []string {
			var l []string
			waits, sets, holds := 0, 0, 0
			for _, o := range c.Par {
				if o.Kind == "wait" {
					waits++
				} else {
					sets++
				}
			}
			for _, h := range c.Hold {
				if h >= 0 && c.Par[h].Kind != "wait" {
					holds++
				}
			}
			pre := false
			for _, o := range c.Pre {
				if o.Kind != "wait" {
					pre = true
				}
			}
			if waits > 0 && sets > 0 && holds > 0 {
				l = append(l, "waiter-held-while-setter-runs")
				if pre {
					l = append(l, "waiter-held-while-second-setter-runs", vlib.NT)
				}
			}
			return l
		},
		MinFrac: map[string]float64{"waiter-held-while-second-setter-runs": 0.08}})
}
