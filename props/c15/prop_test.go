// C15 — PALS hits are real alignments and planted repeats are found.
package c15

import (
	"fmt"
	"os"
	"sort"
	"strconv"
	"testing"

	"github.com/biogo/biogo/align/pals"
	"github.com/biogo/biogo/align/pals/dp"
	"github.com/biogo/biogo/align/pals/filter"
	"github.com/biogo/biogo/alphabet"
	"github.com/biogo/biogo/morass"
	"github.com/biogo/biogo/seq/linear"
	"pgregory.net/rapid"

	"verif/internal/vlib"
)

// nearestKeptTube returns the lowest diagonal (query minus target position) at
// which a filter tube kept by the merger in self comparison starts. Tubes start
// at tubeIndex*offset - Tlen (filter.addHit), i.e. at the diagonals congruent to
// -Tlen modulo the tube offset, and Merger.MergeFilterHit drops those that start
// at or below MaxError. Pure arithmetic on (Tlen, offset, MaxError).
//
// Measured on the unchanged tree (k=5 n=32 e=5 offset=37, random sequences of
// 1 900-3 300 letters, 150-6 000 self comparisons per value): the whole sequence
// is reported as aligned with itself in 31 % of the runs when this value is 6,
// 2 % at 7, 0.4 % at 8, 0.02 % at 9 and in none of 6 000 at 10 - the DP's fixed
// widening covers MaxIGap = 5 diagonals and every further diagonal costs the
// path about a factor of ten. The known finding is therefore identified as
// "nearest kept tube within 2 x MaxIGap of the main diagonal".
func nearestKeptTube(tlen, offset, maxError int) int {
	if offset <= 0 {
		return 1 << 30
	}
	l := ((-tlen % offset) + offset) % offset
	for l <= maxError {
		l += offset
	}
	return l
}

func TestMain(m *testing.M) { vlib.Main(m, "C15"); os.Exit(0) }

type palsCase struct {
	TLen      int  `json:"tlen"`
	QLen      int  `json:"qlen"`
	MinHit    int  `json:"min_hit_len"`
	MinIDPct  int  `json:"min_id_pct"`  // minimum identity in percent
	RepLenPct int  `json:"rep_len_pct"` // repeat length as a percentage of MinHit (150..250)
	T0Pct     int  `json:"t0_permille"` // position of the repeat in the target (permille of the admissible range)
	Q0Pct     int  `json:"q0_permille"`
	Reverse   bool `json:"reverse"` // the query carries the reverse complement of the repeat
	Self      bool `json:"self"`    // self comparison: both copies in one sequence
	Indels    int  `json:"indels"`  // number of single-base indels among the differences (0..3)
	// NearMin > 0: the repeat is only MinHit+NearMin letters long and has substitutions a few letters from
	// each end (so the shared k-mers span less than the repeat); recall is asserted for NearMin >= 15
	NearMin int `json:"near_min,omitempty"`
	// NetDel > 0: the target copy lacks NetDel letters that the query copy has (soundness only: a hit must
	// reach the minimum length on both sequences)
	NetDel int `json:"net_del,omitempty"`
	// LowID: minimum identity below 0.85 (soundness only)
	LowID bool `json:"low_id,omitempty"`
	// PriorMinHit > 0: the same PALS value is first optimised for these other settings, indexed and
	// run on the forward strand (results discarded), then re-optimised for the settings proper.
	PriorMinHit int `json:"prior_min_hit,omitempty"`
	PriorMinID  int `json:"prior_min_id_pct,omitempty"`
	// AtThr > 0: the planted copy differs from the original in floor((1-minId)*L) + AtThr - 2
	// substitutions, i.e. its identity sits just below, at or just above the threshold. Nothing is
	// claimed about finding it; every hit that is returned must still satisfy the error bound.
	AtThr int `json:"at_threshold,omitempty"`
	// Refused: between BuildIndex and Align the aligner is asked for settings Optimise refuses
	// (minimum hit length 20, identity 0.5); a refused call changes nothing.
	Refused bool `json:"refused_optimise,omitempty"`
	// Family: the query carries a second, exact copy of the (mutated) repeat further along: a repeat
	// family. Both query copies must be recovered against the one target copy (ordinary comparison only).
	Family bool `json:"family,omitempty"`
	// BlockIndel != 0: one indel of |BlockIndel| = 2..5 consecutive letters (up to pals.MaxIGap; negative:
	// the query copy lacks them, positive: it has extra ones) at BlockAt permille of the repeat, instead of
	// as many of the substitutions
	// SelfCopy: in a self comparison the query is another sequence value with the same letters
	SelfCopy bool `json:"self_copy,omitempty"`
	// Shared: between BuildIndex and Align a second aligner over the same sequences takes over the
	// first one's index and settings (Share) and is then optimised for other settings (PriorMinHit /
	// PriorMinID when set, else 60 / 0.9); the first aligner's results must not be affected
	Shared bool `json:"shared,omitempty"`
	// Received != 0: the aligner under test does not build its own index: another aligner (the donor) is
	// optimised for the settings under test and builds the index, and the aligner under test takes both over
	// with Share. 1: it is fresh; 2: it had an earlier life of its own under stricter settings (twice the hit
	// length, identity 0.99: Optimise, BuildIndex, Align) - nothing of that may survive; 3: it is fresh and,
	// in a comparison of two sequences, the donor is a self-comparison aligner of the target (what is shared
	// is the target's index and the settings, not the kind of comparison)
	Received int `json:"received,omitempty"`
	// TubeAt >= 1: the aligner is created with an explicit tube offset of MaxError + TubeAt - 1, MaxError
	// being what Optimise chooses for these settings (learned from a throw-away aligner); the smallest
	// offset the filter accepts is MaxError itself. Soundness and error-free runs are asserted, recall is not.
	TubeAt int `json:"tube_at,omitempty"`
	// SavedTraps: the trapezoids of the forward search are kept (Trapezoids()) across the complement
	// search and then aligned again through AlignFrom: the same hits as the forward search gave
	SavedTraps bool   `json:"saved_traps,omitempty"`
	BlockIndel int    `json:"block_indel,omitempty"`
	BlockAt    int    `json:"block_at_permille,omitempty"`
	SeedT      uint64 `json:"seed_t"`
	SeedQ      uint64 `json:"seed_q"`
	SeedM      uint64 `json:"seed_m"` // mutation positions
}

type lcg uint64

func (x *lcg) next() uint64 {
	*x = *x*6364136223846793005 + 1442695040888963407
	return uint64(*x) >> 33
}

func expand(seed uint64, n int) []byte {
	g := lcg(seed*2862933555777941757 + 3037000493)
	b := make([]byte, n)
	for i := range b {
		b[i] = "ACGT"[g.next()&3]
	}
	return b
}

func other(b byte, k uint64) byte {
	const s = "ACGT"
	for i := 0; i < 4; i++ {
		c := s[(int(k)+i)%4]
		if c != b {
			return c
		}
	}
	return 'A'
}

func revcomp(s []byte) []byte {
	out := make([]byte, len(s))
	for i, c := range s {
		var d byte
		switch c {
		case 'A':
			d = 'T'
		case 'C':
			d = 'G'
		case 'G':
			d = 'C'
		default:
			d = 'A'
		}
		out[len(s)-1-i] = d
	}
	return out
}

type built struct {
	target, query []byte
	// planted copy: target [t0,t0+L), query copy [q0,q0+lq) in the coordinates of the sequence handed to
	// PALS for the strand on which it must be found
	t0, tl, q0, ql int
	q1, ql1        int // second query copy of a repeat family (ql1 == 0: none)
	// inverted repeat in a self comparison: the same pair of copies seen from the other copy (the
	// complement search may report either image; altTl == 0: none)
	altT0, altTl, altQ0, altQl int
	diffs                      int
	minID                      float64
}

func (c palsCase) build() built {
	var b built
	b.minID = float64(c.MinIDPct) / 100
	L := c.MinHit * c.RepLenPct / 100
	if c.NearMin > 0 {
		L = c.MinHit + c.NearMin
	}
	tlen, qlen := c.TLen, c.QLen
	if c.Self {
		qlen = tlen
	}
	// the repeat lies at least one repeat length from every sequence end
	need := 3*L + 10
	if tlen < need {
		tlen = need
	}
	if qlen < need {
		qlen = need
	}
	if c.Self && tlen < 8*L+20 {
		tlen = 8*L + 20
		qlen = tlen
	}
	if c.Family && !c.Self && qlen < 8*L+20 {
		qlen = 8*L + 20
	}
	b.target = expand(c.SeedT, tlen)
	place := func(n, pm int) int { return L + (n-3*L)*pm/1000 }
	b.t0, b.tl = place(tlen, c.T0Pct), L
	if c.Self {
		// first copy in the first half, second copy in the second half, both away from the ends and from each other
		b.t0 = L + (tlen/2-3*L)*c.T0Pct/1000
	}
	unit := append([]byte(nil), b.target[b.t0:b.t0+L]...)
	// differences: identity 60% of the way from the threshold to 1
	rate := 0.4 * (1 - b.minID)
	nd := int(rate * float64(L))
	if c.AtThr > 0 {
		nd = int((1-b.minID)*float64(L)) + c.AtThr - 2
		if nd < 0 {
			nd = 0
		}
	}
	blockN := c.BlockIndel
	if blockN < 0 {
		blockN = -blockN
	}
	if nd -= blockN; nd < 0 {
		nd = 0
	}
	g := lcg(c.SeedM)
	copyU := append([]byte(nil), unit...)
	used := map[int]bool{}
	indels := c.Indels
	if indels > nd {
		indels = nd
	}
	endSubs := 0
	if c.NearMin > 0 {
		// substitutions a few letters from each end; they replace evenly spread ones so that the
		// identity margin is unchanged
		for _, p := range []int{3 + int(g.next()%4), L - 4 - int(g.next()%4)} {
			if endSubs < nd && !used[p] {
				used[p] = true
				copyU[p] = other(copyU[p], g.next())
				b.diffs++
				endSubs++
			}
		}
	}
	for k := 0; k < nd-indels-endSubs; k++ {
		// spread evenly with jitter so that no window is much worse than the average
		slot := L * k / max(nd-indels-endSubs, 1)
		width := max(L/max(nd-indels-endSubs, 1), 1)
		p := slot + int(g.next()%uint64(width))
		if p >= L {
			p = L - 1
		}
		if used[p] {
			continue
		}
		used[p] = true
		copyU[p] = other(copyU[p], g.next())
		b.diffs++
	}
	if c.NetDel > 0 {
		// the query copy gains letters the target copy does not have
		for k := 0; k < c.NetDel; k++ {
			p := 15 + int(g.next()%uint64(L-30))
			copyU = append(copyU[:p], append([]byte{"ACGT"[g.next()&3]}, copyU[p:]...)...)
			b.diffs++
		}
	}
	if blockN > 0 {
		p := L * c.BlockAt / 1000
		if c.BlockIndel < 0 {
			copyU = append(copyU[:p:p], copyU[p+blockN:]...)
		} else {
			var extra []byte
			for k := 0; k < blockN; k++ {
				extra = append(extra, "ACGT"[g.next()&3])
			}
			copyU = append(copyU[:p:p], append(extra, copyU[p:]...)...)
		}
		b.diffs += blockN
	}
	// a few single-base indels
	for k := 0; k < indels; k++ {
		p := 10 + int(g.next()%uint64(L-20))
		if g.next()&1 == 0 && len(copyU) > L-3 {
			copyU = append(copyU[:p], copyU[p+1:]...) // deletion
		} else {
			copyU = append(copyU[:p], append([]byte{"ACGT"[g.next()&3]}, copyU[p:]...)...) // insertion
		}
		b.diffs++
	}
	if c.Self {
		// second copy further along the same sequence, not overlapping the first
		q0 := tlen/2 + L/2 + (tlen/2-3*L-5)*c.Q0Pct/1000
		if c.Reverse {
			// an inverted repeat: the second copy is the reverse complement of the first. On the
			// complement strand (query = reverse complement of the whole sequence) the first copy in
			// the target faces the image of the second copy, and the second copy in the target faces
			// the image of the first.
			copy(b.target[q0:], revcomp(copyU))
			b.query = b.target
			b.q0, b.ql = tlen-q0-len(copyU), len(copyU)
			b.altT0, b.altTl, b.altQ0, b.altQl = q0, len(copyU), tlen-b.t0-L, L
			return b
		}
		copy(b.target[q0:], copyU)
		b.query = b.target
		b.q0, b.ql = q0, len(copyU)
		return b
	}
	b.query = expand(c.SeedQ, qlen)
	q0 := place(qlen, c.Q0Pct)
	ins := copyU
	if c.Reverse {
		ins = revcomp(copyU)
	}
	q1 := -1
	if c.Family {
		// first copy in the first half, second in the second half
		q0 = L + (qlen/2-3*L)*c.Q0Pct/1000
		q1 = qlen/2 + L/2 + (qlen/2-3*L-5)*((c.Q0Pct*7+c.T0Pct)%1000)/1000
		copy(b.query[q1:], ins)
	}
	copy(b.query[q0:], ins)
	b.q0, b.ql = q0, len(ins)
	if q1 >= 0 {
		b.q1, b.ql1 = q1, len(ins)
	}
	if c.Reverse {
		// PALS reports complement-strand hits in the coordinates of the reverse-complemented query
		b.q0 = qlen - q0 - len(ins)
		if q1 >= 0 {
			b.q1 = qlen - q1 - len(ins)
		}
	}
	return b
}

func overlap(a0, a1, b0, b1 int) int {
	lo, hi := max(a0, b0), min(a1, b1)
	if hi > lo {
		return hi - lo
	}
	return 0
}

// globalScore: optimal global alignment score under the PALS scoring (match +1, mismatch and indel -3).
func globalScoreAndDistance(a, b []byte) (score, dist int) {
	prevS, curS := make([]int, len(b)+1), make([]int, len(b)+1)
	prevD, curD := make([]int, len(b)+1), make([]int, len(b)+1)
	for j := range prevS {
		prevS[j], prevD[j] = -3*j, j
	}
	for i := 1; i <= len(a); i++ {
		curS[0], curD[0] = -3*i, i
		for j := 1; j <= len(b); j++ {
			s, d := -3, 1
			if a[i-1] == b[j-1] {
				s, d = 1, 0
			}
			curS[j] = max(prevS[j-1]+s, max(prevS[j]-3, curS[j-1]-3))
			curD[j] = min(prevD[j-1]+d, min(prevD[j]+1, curD[j-1]+1))
		}
		prevS, curS = curS, prevS
		prevD, curD = curD, prevD
	}
	return prevS[len(b)], prevD[len(b)]
}

// assertNearMin makes check() treat a missed near-minimum repeat as a failure (used only when a batch
// replay wants per-case detail); nearMinMissed reports the outcome of the last near-minimum case.
var (
	assertNearMin bool
	nearMinMissed bool
)

func check(c palsCase) *vlib.Failure {
	nearMinMissed = false
	b := c.build()
	ts := linear.NewSeq("t", alphabet.BytesToLetters(b.target), alphabet.DNA)
	qs := ts
	if !c.Self {
		qs = linear.NewSeq("q", alphabet.BytesToLetters(b.query), alphabet.DNA)
	} else if c.SelfCopy {
		qs = linear.NewSeq("t", alphabet.BytesToLetters(append([]byte(nil), b.target...)), alphabet.DNA)
	}
	m, err := morass.New(filter.Hit{}, "pals", "", 1<<13, false)
	if err != nil {
		return vlib.Failf("setup", "%v", err)
	}
	mem := uintptr(8 << 20) // keeps Optimise at k <= 10 (an uncapped run picks k = 15: a 4 GiB table)
	tubeOffset := 0
	if c.TubeAt > 0 {
		probe := pals.New(ts, qs, c.Self, nil, 0, &mem, nil)
		if err := probe.Optimise(c.MinHit, b.minID); err == nil {
			tubeOffset = probe.FilterParams.MaxError + c.TubeAt - 1
		}
	}
	p := pals.New(ts, qs, c.Self, m, tubeOffset, &mem, nil)
	defer p.CleanUp()
	desc := fmt.Sprintf("Tlen=%d Qlen=%d minHitLen=%d minId=%.2f repeat %d letters with %d differences at t[%d,%d) q[%d,%d) reverse=%v self=%v", len(b.target), len(b.query), c.MinHit, b.minID, b.tl, b.diffs, b.t0, b.t0+b.tl, b.q0, b.q0+b.ql, c.Reverse, c.Self)
	if c.PriorMinHit > 0 {
		// an earlier life of the same aligner under other settings
		if err := p.Optimise(c.PriorMinHit, float64(c.PriorMinID)/100); err == nil {
			if err := p.BuildIndex(); err == nil {
				p.Align(false)
			}
		}
		desc += fmt.Sprintf(" [aligner used before with minHitLen=%d minId=%.2f]", c.PriorMinHit, float64(c.PriorMinID)/100)
	}
	if c.Received != 0 {
		dq, dself := qs, c.Self
		if c.Received == 3 && !c.Self {
			dq, dself = ts, true
		}
		donor := pals.New(ts, dq, dself, nil, tubeOffset, &mem, nil)
		if err := donor.Optimise(c.MinHit, b.minID); err != nil {
			return vlib.Failf("optimise", "%s: %v", desc, err)
		}
		if err := donor.BuildIndex(); err != nil {
			return vlib.Failf("build-index", "%s: %v", desc, err)
		}
		if c.Received == 2 {
			if err := p.Optimise(2*c.MinHit, 0.99); err == nil {
				if err := p.BuildIndex(); err == nil {
					p.Align(false)
				}
			}
		}
		p.Share(donor)
		desc += fmt.Sprintf(" [index and settings received through Share, variant %d]", c.Received)
	} else {
		if err := p.Optimise(c.MinHit, b.minID); err != nil {
			return vlib.Failf("optimise", "%s: %v", desc, err)
		}
		if err := p.BuildIndex(); err != nil {
			return vlib.Failf("build-index", "%s: %v", desc, err)
		}
	}
	if c.Refused && c.Received == 0 {
		if err := p.Optimise(20, 0.5); err == nil {
			// accepted after all: then these are new settings; go back to the ones under test
			if err := p.Optimise(c.MinHit, b.minID); err != nil {
				return vlib.Failf("optimise", "%s: %v", desc, err)
			}
			if err := p.BuildIndex(); err != nil {
				return vlib.Failf("build-index", "%s: %v", desc, err)
			}
		} else {
			vlib.Count("optimise-refused-then-align", 1)
			desc += " [after a refused Optimise(20, 0.5)]"
		}
	}
	if tubeOffset > 0 {
		desc += fmt.Sprintf(" [explicit tube offset %d, MaxError %d]", tubeOffset, p.FilterParams.MaxError)
	}
	if c.Shared {
		m2, err := morass.New(filter.Hit{}, "pals2", "", 1<<13, false)
		if err != nil {
			return vlib.Failf("setup", "%v", err)
		}
		p2 := pals.New(ts, qs, c.Self, m2, 0, &mem, nil)
		p2.Share(p)
		oh, oi := 60, 0.9
		if c.PriorMinHit > 0 {
			oh, oi = c.PriorMinHit, float64(c.PriorMinID)/100
		}
		p2.Optimise(oh, oi)
		p2.CleanUp()
		desc += fmt.Sprintf(" [another aligner shared this one's index and was then optimised for %d / %.2f]", oh, oi)
	}
	strands := []bool{false, true}
	found := false
	var savedTraps filter.Trapezoids
	var forwardHits string
	for _, comp := range strands {
		hits, err := p.Align(comp)
		if err != nil {
			return vlib.Failf("align-error", "%s: Align(%v): %v", desc, comp, err)
		}
		if c.SavedTraps && !comp {
			savedTraps, forwardHits = p.Trapezoids(), hitSet(hits)
		}
		if c.SavedTraps && comp {
			again, err := p.AlignFrom(savedTraps, false)
			if err != nil {
				return vlib.Failf("align-error", "%s: AlignFrom(trapezoids kept from Align(false), false): %v", desc, err)
			}
			if got := hitSet(again); got != forwardHits {
				return vlib.Failf("saved-trapezoids", "%s: the trapezoids of the forward search, kept across Align(true) and aligned again with AlignFrom, give %s; Align(false) had given %s", desc, clipS(got), clipS(forwardHits))
			}
			// the same on the complement strand: its own trapezoids through AlignFrom(..., true)
			againC, err := p.AlignFrom(p.Trapezoids(), true)
			if err != nil {
				return vlib.Failf("align-error", "%s: AlignFrom(trapezoids of Align(true), true): %v", desc, err)
			}
			if got, want := hitSet(againC), hitSet(hits); got != want {
				return vlib.Failf("saved-trapezoids", "%s: the trapezoids of the complement search aligned again with AlignFrom(..., true) give %s; Align(true) had given %s", desc, clipS(got), clipS(want))
			}
		}
		query := b.query
		if comp {
			query = revcomp(b.query)
		}
		if f := soundness(c, b, hits, b.target, query, comp, desc); f != nil {
			f.Msg += fmt.Sprintf(" [filter k=%d n=%d e=%d offset=%d]", p.FilterParams.WordSize, p.FilterParams.MinMatch, p.FilterParams.MaxError, p.FilterParams.TubeOffset)
			if f.Kind == "trivial-self-match" && nearestKeptTube(len(b.target), p.FilterParams.TubeOffset, p.FilterParams.MaxError) <= 2*pals.MaxIGap {
				// known finding KF-C15: in self comparison the merger drops the filter tubes that start
				// within MaxError of the main diagonal; the banded DP widens a kept trapezoid by MaxIGap
				// and its band then follows the best path, so a kept tube that starts close enough to
				// the main diagonal is pulled onto it (see nearestKeptTube)
				f.Kind = "trivial-self-match-from-kept-tube-within-dp-reach"
			}
			return f
		}
		if comp == c.Reverse && c.NetDel == 0 && !c.LowID && c.AtThr == 0 && c.TubeAt == 0 {
			for _, h := range hits {
				_ = h
			}
			if c.NearMin > 0 && !assertNearMin {
				// recall just above the minimum length is asserted over batches (see TestNearMinimumRecall):
				// the unchanged tree misses about one such repeat in ten thousand
				hit := false
				for _, h := range hits {
					if 10*overlap(h.Abpos, h.Aepos, b.t0, b.t0+b.tl) >= 6*b.tl && 10*overlap(h.Bbpos, h.Bepos, b.q0, b.q0+b.ql) >= 6*b.ql {
						hit = true
					}
					if b.altTl > 0 && 10*overlap(h.Abpos, h.Aepos, b.altT0, b.altT0+b.altTl) >= 6*b.altTl && 10*overlap(h.Bbpos, h.Bepos, b.altQ0, b.altQ0+b.altQl) >= 6*b.altQl {
						hit = true
					}
				}
				if !hit {
					nearMinMissed = true
				}
				continue
			}
			found2 := b.ql1 == 0
			for _, h := range hits {
				if 10*overlap(h.Abpos, h.Aepos, b.t0, b.t0+b.tl) >= 6*b.tl && 10*overlap(h.Bbpos, h.Bepos, b.q0, b.q0+b.ql) >= 6*b.ql {
					found = true
				}
				if b.altTl > 0 && 10*overlap(h.Abpos, h.Aepos, b.altT0, b.altT0+b.altTl) >= 6*b.altTl && 10*overlap(h.Bbpos, h.Bepos, b.altQ0, b.altQ0+b.altQl) >= 6*b.altQl {
					found = true
				}
				if b.ql1 > 0 && 10*overlap(h.Abpos, h.Aepos, b.t0, b.t0+b.tl) >= 6*b.tl && 10*overlap(h.Bbpos, h.Bepos, b.q1, b.q1+b.ql1) >= 6*b.ql1 {
					found2 = true
				}
			}
			if c.BlockIndel != 0 {
				// an indel of several consecutive letters costs the extension 3 per letter against a
				// budget of MaxIGap x 3 = 15 for any local drop: MaxIGap letters are the most it can
				// bridge at all, and fewer only while no substitution lies close by. Such repeats are not
				// "comfortably" recoverable: recall is counted, not asserted (measured rates on the
				// unchanged tree in DESIGN.md, 8.5 round 6); every hit still has to be sound.
				n := c.BlockIndel
				if n < 0 {
					n = -n
				}
				vlib.Count(fmt.Sprintf("repeats-with-one-indel-of-%d-letters-run", n), 1)
				if !found || !found2 {
					vlib.Count(fmt.Sprintf("repeats-with-one-indel-of-%d-letters-missed", n), 1)
				}
				continue
			}
			if !found {
				return vlib.Failf("repeat-not-found", "%s: no hit of Align(%v) overlaps 60%% of the planted copy in both sequences (k=%d; %d hits: %v)", desc, comp, p.FilterParams.WordSize, len(hits), clip(hits))
			}
			if !found2 {
				return vlib.Failf("family-member-not-found", "%s: the query holds a second copy at q[%d,%d); no hit of Align(%v) pairs it with the target copy (k=%d; %d hits: %v)", desc, b.q1, b.q1+b.ql1, comp, p.FilterParams.WordSize, len(hits), clip(hits))
			}
		}
	}
	vlib.Count("k="+fmt.Sprint(p.FilterParams.WordSize), 1)
	return nil
}

func hitSet(h dp.Hits) string {
	l := make([]string, len(h))
	for i, x := range h {
		l[i] = fmt.Sprintf("%d,%d,%d,%d,%d,%.6f", x.Abpos, x.Bbpos, x.Aepos, x.Bepos, x.Score, x.Error)
	}
	sort.Strings(l)
	return fmt.Sprintf("%d hits %v", len(l), l)
}

func clipS(s string) string {
	if len(s) > 300 {
		return s[:300] + "..."
	}
	return s
}

func clip(h dp.Hits) string {
	if len(h) > 4 {
		return fmt.Sprint(h[:4]) + "…"
	}
	return fmt.Sprint(h)
}

func soundness(c palsCase, b built, hits dp.Hits, target, query []byte, comp bool, desc string) *vlib.Failure {
	minID := b.minID
	for i, h := range hits {
		what := fmt.Sprintf("%s: hit %d of Align(%v) %+v", desc, i, comp, h)
		if h.Abpos < 0 || h.Aepos > len(target) || h.Bbpos < 0 || h.Bepos > len(query) || h.Abpos > h.Aepos || h.Bbpos > h.Bepos {
			return vlib.Failf("hit-outside-sequences", "%s lies outside the sequences (lengths %d, %d)", what, len(target), len(query))
		}
		if h.Aepos-h.Abpos < c.MinHit || h.Bepos-h.Bbpos < c.MinHit {
			return vlib.Failf("hit-too-short", "%s is shorter than the minimum hit length %d", what, c.MinHit)
		}
		if h.Error > 1-minID+1e-9 {
			return vlib.Failf("hit-error-above-threshold", "%s has error %.4f > 1 - minId = %.4f", what, h.Error, 1-minID)
		}
		if h.Error < 0 {
			return vlib.Failf("hit-negative-error", "%s", what)
		}
		a, bb := target[h.Abpos:h.Aepos], query[h.Bbpos:h.Bepos]
		best, dist := globalScoreAndDistance(a, bb)
		if h.Score > best {
			return vlib.Failf("hit-score-above-optimum", "%s reports score %d but the optimal global alignment of the two regions scores %d (match +1, mismatch/indel -3)", what, h.Score, best)
		}
		if 4*h.Error*float64(len(bb)) < float64(len(bb)-h.Score)-1e-6 {
			// every letter of the query region that is not matched costs the score at least 4 against a
			// perfect copy (a substitution or insertion 1 + 3, a deletion 3): the reported score itself
			// implies at least (|B| - Score) / 4 differences per letter
			return vlib.Failf("hit-error-understated", "%s: the reported error %.5f is below what the reported score implies, (|B| - Score) / (4 |B|) = %.5f", what, h.Error, float64(len(bb)-h.Score)/(4*float64(len(bb))))
		}
		if float64(3*dist) > 4*h.Error*float64(len(bb))+1e-6 {
			return vlib.Failf("hit-error-understated", "%s: the regions are at edit distance %d, more than the reported error allows (3d <= 4*Error*|B| = %.2f)", what, dist, 4*h.Error*float64(len(bb)))
		}
		if c.Self && !comp && h.Abpos == h.Bbpos && h.Aepos == h.Bepos {
			return vlib.Failf("trivial-self-match", "%s is the trivial self match", what)
		}
		vlib.Count("hits-checked", 1)
	}
	return nil
}

func gen(t *rapid.T) palsCase {
	c := palsCase{MinHit: rapid.IntRange(100, 400).Draw(t, "min-hit"), MinIDPct: rapid.IntRange(85, 95).Draw(t, "min-id"), RepLenPct: rapid.IntRange(130, 250).Draw(t, "rep-len"),
		T0Pct: rapid.IntRange(0, 1000).Draw(t, "t0"), Q0Pct: rapid.IntRange(0, 1000).Draw(t, "q0"), SeedT: rapid.Uint64().Draw(t, "seed-t"), SeedQ: rapid.Uint64().Draw(t, "seed-q"), SeedM: rapid.Uint64().Draw(t, "seed-m")}
	maxLen := 8000
	if vlib.Thorough() {
		maxLen = 20000
	}
	c.TLen = rapid.IntRange(2000, maxLen).Draw(t, "tlen")
	c.QLen = rapid.IntRange(2000, maxLen).Draw(t, "qlen")
	switch rapid.IntRange(0, 4).Draw(t, "mode") {
	case 0:
		c.Self = true
		// an inverted repeat within the one sequence, found by the complement search
		c.Reverse = rapid.IntRange(0, 2).Draw(t, "inverted") == 0
	case 1, 2:
		c.Reverse = true
	}
	if rapid.IntRange(0, 2).Draw(t, "with-indels") == 0 {
		c.Indels = rapid.IntRange(1, 3).Draw(t, "indels")
	}
	if rapid.IntRange(0, 5).Draw(t, "low-identity") == 0 {
		// permissive settings make Optimise fall back to a shorter filter seed; only the soundness
		// clauses are asserted there (LowID)
		c.MinIDPct = rapid.IntRange(70, 84).Draw(t, "min-id-permissive")
		c.LowID = true
	}
	switch rapid.IntRange(0, 5).Draw(t, "length-class") {
	case 0: // only a little longer than the minimum, differences near both ends
		c.NearMin = rapid.IntRange(12, 30).Draw(t, "near-min")
		c.Indels = 0
	case 1: // about the minimum length with net deletions in the target copy (soundness only)
		c.NearMin = rapid.IntRange(1, 4).Draw(t, "near-min-small")
		c.NetDel = rapid.IntRange(2, 6).Draw(t, "net-del")
		c.Indels = 0
		c.MinIDPct = rapid.IntRange(85, 90).Draw(t, "min-id-low")
	}
	if !c.Self && rapid.IntRange(0, 4).Draw(t, "family") == 0 {
		c.Family = true
	}
	if c.NearMin == 0 && c.NetDel == 0 && rapid.IntRange(0, 7).Draw(t, "identity-at-threshold") == 5 {
		c.AtThr = rapid.IntRange(1, 4).Draw(t, "at-threshold")
		c.Indels = 0
	}
	if c.NearMin == 0 && c.NetDel == 0 && c.AtThr == 0 && !c.LowID && rapid.IntRange(0, 7).Draw(t, "block-indel") == 3 {
		c.BlockIndel = rapid.IntRange(2, 5).Draw(t, "block-indel-len")
		if rapid.Bool().Draw(t, "block-deletion") {
			c.BlockIndel = -c.BlockIndel
		}
		c.BlockAt = rapid.IntRange(300, 700).Draw(t, "block-at")
		if rapid.Bool().Draw(t, "block-just-past-the-middle") {
			c.BlockAt = rapid.IntRange(505, 595).Draw(t, "block-at-mid")
		}
		c.Indels = 0
	}
	if os.Getenv("VERIF_C15_FORCE_BLOCK") != "" {
		c.NearMin, c.NetDel, c.AtThr, c.LowID, c.Indels = 0, 0, 0, false, 0
		if c.MinIDPct < 85 {
			c.MinIDPct = 85
		}
		n, _ := strconv.Atoi(os.Getenv("VERIF_C15_FORCE_BLOCK"))
		c.BlockIndel = -n + 2*n*int(c.SeedM&1)
		c.BlockAt = 505 + int(c.SeedM>>3)%90
	}
	c.SavedTraps = rapid.IntRange(0, 4).Draw(t, "saved-traps") == 3
	c.SelfCopy = c.Self && rapid.Bool().Draw(t, "self-copy")
	c.Shared = rapid.IntRange(0, 5).Draw(t, "shared") == 4
	if rapid.IntRange(0, 3).Draw(t, "received") == 2 {
		c.Received = rapid.IntRange(1, 3).Draw(t, "received-variant")
	}
	if rapid.IntRange(0, 7).Draw(t, "explicit-tube-offset") == 6 {
		c.TubeAt = rapid.SampledFrom([]int{1, 1, 2, 9, 40}).Draw(t, "tube-at")
	}
	c.Refused = rapid.IntRange(0, 5).Draw(t, "refused-optimise") == 2
	if rapid.IntRange(0, 5).Draw(t, "aligner-used-before") == 3 {
		c.PriorMinHit = rapid.IntRange(100, 400).Draw(t, "prior-min-hit")
		c.PriorMinID = rapid.IntRange(85, 95).Draw(t, "prior-min-id")
		if rapid.IntRange(0, 2).Draw(t, "prior-same-identity") > 0 {
			// the same identity usually leads Optimise to the same word size: what is derived from
			// the word size alone (the index) may be kept, everything else has to follow the new settings
			c.PriorMinID = c.MinIDPct
			c.PriorMinHit = min(400, c.MinHit*rapid.IntRange(2, 4).Draw(t, "prior-longer"))
		}
	}
	return c
}

func classes(c palsCase) []string {
	var l []string
	switch {
	case c.Self && c.Reverse:
		l = append(l, "self", "self-inverted-repeat")
	case c.Self:
		l = append(l, "self")
	case c.Reverse:
		l = append(l, "reverse-strand")
	default:
		l = append(l, "forward")
	}
	if c.BlockIndel != 0 {
		l = append(l, "one-indel-of-2-to-5-letters")
	}
	if c.SavedTraps {
		l = append(l, "trapezoids-kept-and-aligned-again")
	}
	if c.SelfCopy {
		l = append(l, "self-comparison-with-an-equal-copy-as-query")
	}
	if c.Shared {
		l = append(l, "index-shared-with-an-aligner-optimised-otherwise")
	}
	if c.Received != 0 {
		l = append(l, "index-and-settings-received-through-share")
	}
	if c.Received == 3 && !c.Self {
		l = append(l, "shared-from-a-self-comparison-of-the-target")
	}
	if c.TubeAt > 0 {
		l = append(l, "explicit-tube-offset")
	}
	if c.Indels > 0 {
		l = append(l, "indels")
	}
	if c.LowID {
		l = append(l, "permissive-identity")
	}
	if c.NetDel > 0 {
		l = append(l, "near-minimum-with-net-deletions")
	} else if c.NearMin > 0 {
		l = append(l, "near-minimum-length")
	}
	b := c.build()
	if b.diffs >= 1 {
		l = append(l, vlib.NT)
	}
	if c.Family && !c.Self {
		l = append(l, "repeat-family")
	}
	if c.PriorMinHit > 0 {
		l = append(l, "aligner-re-optimised-after-an-earlier-use")
	}
	if c.AtThr > 0 {
		l = append(l, "identity-at-the-threshold")
	}
	if c.Refused {
		l = append(l, "refused-optimise-before-align")
	}
	return l
}

// Recall just above the minimum hit length. The extension heuristics make the unchanged tree miss
// roughly one such repeat in ten thousand (measured: 1 of ~19 000), so a single miss is not evidence;
// a batch of 40 with 4 or more misses is (probability below 1e-9 at the measured rate).
type nearBatch struct {
	Cases []palsCase `json:"cases"`
}

func TestNearMinimumRecall(t *testing.T) {
	vlib.Run(t, vlib.Prop[nearBatch]{Name: "near-minimum-recall-batches", Checks: 16, Thorough: 480,
		Gen: func(t *rapid.T) nearBatch {
			var b nearBatch
			for i := 0; i < 40; i++ {
				c := gen(t)
				c.NearMin = rapid.IntRange(12, 30).Draw(t, "near-min")
				c.NetDel, c.Indels = 0, 0
				b.Cases = append(b.Cases, c)
			}
			return b
		},
		Check: func(b nearBatch) *vlib.Failure {
			missed := 0
			var first string
			for _, c := range b.Cases {
				if f := check(c); f != nil {
					return f // soundness failures are failures on their own
				}
				if nearMinMissed {
					missed++
					if first == "" {
						bb := c.build()
						first = fmt.Sprintf("minHitLen=%d minId=%d%% repeat %d letters, %d differences, t0=%d q0=%d reverse=%v self=%v", c.MinHit, c.MinIDPct, bb.tl, bb.diffs, bb.t0, bb.q0, c.Reverse, c.Self)
					}
				}
			}
			vlib.Count("near-minimum-repeats-run", len(b.Cases))
			vlib.Count("near-minimum-repeats-missed", missed)
			if missed >= 4 {
				return vlib.Failf("near-minimum-recall-collapsed", "%d of %d repeats only 12..30 letters longer than the minimum hit length were not found (the unchanged tree misses about 1 in 10 000); first: %s", missed, len(b.Cases), first)
			}
			return nil
		},
		Classes: func(b nearBatch) []string { return []string{vlib.NT} }})
}

func TestPALS(t *testing.T) {
	vlib.Run(t, vlib.Prop[palsCase]{Name: "soundness-and-recall", Checks: 200, Thorough: 9600, Gen: gen, Check: check, Classes: classes,
		MinFrac: map[string]float64{"self": 0.1, "reverse-strand": 0.2, "indels": 0.08, "near-minimum-length": 0.08, "near-minimum-with-net-deletions": 0.08, "repeat-family": 0.08, "index-and-settings-received-through-share": 0.15, "shared-from-a-self-comparison-of-the-target": 0.03}})
}
