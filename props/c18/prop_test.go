// C18 — quality scores encode, decode and convert consistently.
//
// Oracles are closed forms written here from the property statement
// (10^(-q/10), 1/(1+10^(q/10)), 10·log10(10^(q/10)∓1)) and the byte layout of
// the encodings (Phred+33, Phred+64, Solexa+64); nothing is compared with the
// library's own tables.
package c18

import (
	"fmt"
	"math"
	"os"
	"strconv"
	"strings"
	"testing"

	"github.com/biogo/biogo/alphabet"
	"github.com/biogo/biogo/seq/linear"
	"github.com/biogo/biogo/seq/quality"
	"pgregory.net/rapid"

	"verif/internal/vlib"
)

func TestMain(m *testing.M) { vlib.Main(m, "C18"); os.Exit(0) }

var encNames = map[alphabet.Encoding]string{
	alphabet.Sanger: "Sanger", alphabet.Solexa: "Solexa", alphabet.Illumina1_3: "Illumina1_3",
	alphabet.Illumina1_5: "Illumina1_5", alphabet.Illumina1_8: "Illumina1_8", alphabet.Illumina1_9: "Illumina1_9",
	alphabet.None: "None",
}

var phredEncs = []alphabet.Encoding{alphabet.Sanger, alphabet.Illumina1_3, alphabet.Illumina1_5, alphabet.Illumina1_8, alphabet.Illumina1_9}
var allEncs = []alphabet.Encoding{alphabet.None, alphabet.Sanger, alphabet.Solexa, alphabet.Illumina1_3, alphabet.Illumina1_5, alphabet.Illumina1_8, alphabet.Illumina1_9}

// phredRange returns offset and printable score range of a Phred-offset encoding.
func phredRange(e alphabet.Encoding) (off, lo, hi int) {
	switch e {
	case alphabet.Sanger, alphabet.Illumina1_8, alphabet.Illumina1_9:
		return 33, 0, 93
	case alphabet.Illumina1_3:
		return 64, 0, 62
	case alphabet.Illumina1_5:
		return 64, 2, 62
	}
	panic("not a phred encoding")
}

const (
	solexaLo = -5 // lowest Solexa score the format defines (byte ';')
	solexaHi = 62 // byte '~'
)

// ---- value × encoding enumeration ------------------------------------------

type valEnc struct {
	Kind string // "phred", "solexa", "byte"
	V    int
	Enc  int8
}

func eachValEnc(yield func(valEnc) bool) {
	for _, e := range allEncs {
		for v := 0; v < 256; v++ {
			if !yield(valEnc{"phred", v, int8(e)}) {
				return
			}
		}
		for v := -128; v < 128; v++ {
			if !yield(valEnc{"solexa", v, int8(e)}) {
				return
			}
		}
		for v := 0; v < 256; v++ {
			if !yield(valEnc{"byte", v, int8(e)}) {
				return
			}
		}
	}
}

func isPhredEnc(e alphabet.Encoding) bool {
	for _, p := range phredEncs {
		if p == e {
			return true
		}
	}
	return false
}

func classValEnc(c valEnc) []string {
	e := alphabet.Encoding(c.Enc)
	l := []string{c.Kind + "/" + encNames[e]}
	switch c.Kind {
	case "phred":
		if isPhredEnc(e) {
			_, lo, hi := phredRange(e)
			if c.V >= lo && c.V <= hi {
				l = append(l, vlib.NT, "in-printable-range")
			}
		}
	case "solexa":
		if e == alphabet.Solexa && c.V >= solexaLo && c.V <= solexaHi {
			l = append(l, vlib.NT, "in-printable-range")
		}
	case "byte":
		if isPhredEnc(e) {
			off, lo, hi := phredRange(e)
			if c.V >= off+lo && c.V <= off+hi {
				l = append(l, vlib.NT, "in-printable-range")
			}
		} else if e == alphabet.Solexa && c.V >= 64+solexaLo && c.V <= 64+solexaHi {
			l = append(l, vlib.NT, "in-printable-range")
		}
	}
	return l
}

func checkValEnc(c valEnc) *vlib.Failure {
	e := alphabet.Encoding(c.Enc)
	switch c.Kind {
	case "phred":
		if !isPhredEnc(e) {
			return nil
		}
		off, lo, hi := phredRange(e)
		if c.V < lo || c.V > hi {
			return nil
		}
		q := alphabet.Qphred(c.V)
		b := q.Encode(e)
		if int(b) != c.V+off {
			return vlib.Failf("phred-encode-byte", "Qphred(%d).Encode(%s) = %d (%q), want score+%d = %d", c.V, encNames[e], b, b, off, c.V+off)
		}
		if got := e.DecodeToQphred(b); got != q {
			return vlib.Failf("phred-roundtrip", "%s.DecodeToQphred(Qphred(%d).Encode) = %d", encNames[e], c.V, got)
		}
	case "solexa":
		if e != alphabet.Solexa || c.V < solexaLo || c.V > solexaHi {
			return nil
		}
		q := alphabet.Qsolexa(c.V)
		b := q.Encode(e)
		if int(b) != c.V+64 {
			return vlib.Failf("solexa-encode-byte", "Qsolexa(%d).Encode(Solexa) = %d (%q), want score+64 = %d", c.V, b, b, c.V+64)
		}
		if got := e.DecodeToQsolexa(b); got != q {
			return vlib.Failf("solexa-roundtrip", "Solexa.DecodeToQsolexa(Qsolexa(%d).Encode) = %d", c.V, got)
		}
	case "byte":
		b := byte(c.V)
		switch {
		case isPhredEnc(e):
			off, lo, hi := phredRange(e)
			if c.V < off+lo || c.V > off+hi {
				return nil
			}
			q := e.DecodeToQphred(b)
			if int(q) != c.V-off {
				return vlib.Failf("phred-decode-byte", "%s.DecodeToQphred(%d) = %d, want byte-%d = %d", encNames[e], b, q, off, c.V-off)
			}
			if got := q.Encode(e); got != b {
				return vlib.Failf("phred-byte-roundtrip", "%s: Encode(Decode(%d)) = %d", encNames[e], b, got)
			}
			// the same byte read as a Solexa score is the analytic conversion of the Phred score
			if c.V-off >= 1 {
				if f := nearest("decode-cross-phred-to-solexa", float64(e.DecodeToQsolexa(b)), phredToSolexa(float64(c.V-off))); f != nil {
					return f
				}
			}
		case e == alphabet.Solexa:
			if c.V < 64+solexaLo || c.V > 64+solexaHi {
				return nil
			}
			q := e.DecodeToQsolexa(b)
			if int(q) != c.V-64 {
				return vlib.Failf("solexa-decode-byte", "Solexa.DecodeToQsolexa(%d) = %d, want %d", b, q, c.V-64)
			}
			if got := q.Encode(e); got != b {
				return vlib.Failf("solexa-byte-roundtrip", "Solexa: Encode(Decode(%d)) = %d", b, got)
			}
			if f := nearest("decode-cross-solexa-to-phred", float64(e.DecodeToQphred(b)), solexaToPhred(float64(c.V-64))); f != nil {
				return f
			}
		}
	}
	return nil
}

func phredToSolexa(q float64) float64 { return 10 * math.Log10(math.Pow(10, q/10)-1) }
func solexaToPhred(q float64) float64 { return 10 * math.Log10(math.Pow(10, q/10)+1) }

const roundTol = 0.5 + 1e-7

func nearest(kind string, got, analytic float64) *vlib.Failure {
	if math.Abs(got-analytic) > roundTol {
		return vlib.Failf(kind, "got %v, analytic value %.6f: not the nearest integer", got, analytic)
	}
	return nil
}

func TestEncodeDecode(t *testing.T) {
	vlib.RunEnum(t, vlib.Enum[valEnc]{Name: "encode-decode", Each: eachValEnc, Check: checkValEnc, Classes: classValEnc})
}

// ---- score tables ----------------------------------------------------------

type scoreCase struct {
	Type string // "phred" | "solexa"
	V    int
}

func eachScore(yield func(scoreCase) bool) {
	for v := 0; v < 256; v++ {
		if !yield(scoreCase{"phred", v}) {
			return
		}
	}
	for v := -128; v < 128; v++ {
		if !yield(scoreCase{"solexa", v}) {
			return
		}
	}
}

func relClose(a, b, tol float64) bool {
	if a == b {
		return true
	}
	return math.Abs(a-b) <= tol*math.Max(math.Abs(a), math.Abs(b))
}

func checkScore(c scoreCase) *vlib.Failure {
	switch c.Type {
	case "phred":
		q := alphabet.Qphred(c.V)
		if c.V >= 254 { // 254: p = 0, 255: undefined — sentinels, outside the closed form
			return nil
		}
		p := q.ProbE()
		want := math.Pow(10, -float64(c.V)/10)
		if !relClose(p, want, 1e-12) {
			return vlib.Failf("phred-probe", "Qphred(%d).ProbE() = %g, want 10^(-q/10) = %g", c.V, p, want)
		}
		if back := alphabet.Ephred(p); back != q {
			return vlib.Failf("phred-score-p-score", "Ephred(Qphred(%d).ProbE()) = %d", c.V, back)
		}
		if c.V+1 < 254 {
			if next := alphabet.Qphred(c.V + 1).ProbE(); !(next <= p) {
				return vlib.Failf("phred-monotone", "ProbE(%d)=%g > ProbE(%d)=%g", c.V+1, next, c.V, p)
			}
		}
		// Phred -> Solexa: analytic value finite for q >= 1, representable while |S| <= 126
		// (127 and -128 are the sentinels for p = 0 and undefined).
		if c.V >= 1 {
			s := phredToSolexa(float64(c.V))
			got := q.Qsolexa()
			if s <= 126.49 {
				if f := nearest("phred-to-solexa", float64(got), s); f != nil {
					f.Msg = "Qphred(" + itoa(c.V) + ").Qsolexa(): " + f.Msg
					return f
				}
			}
		}
		if c.V >= 10 && c.V <= 126 {
			if back := q.Qsolexa().Qphred(); back != q {
				return vlib.Failf("phred-solexa-phred", "Qphred(%d).Qsolexa().Qphred() = %d", c.V, back)
			}
		}
	case "solexa":
		q := alphabet.Qsolexa(c.V)
		if c.V == -128 || c.V == 127 { // sentinels (undefined, p = 0)
			if c.V == 127 {
				// the analytic conversion of 127 is 127.0000…; the p = 0 sentinel reading gives 254
				if got := q.Qphred(); got != 127 && got != 254 {
					return vlib.Failf("solexa-to-phred", "Qsolexa(127).Qphred() = %d, want 127 (analytic) or 254 (p = 0 sentinel)", got)
				}
			}
			return nil
		}
		p := q.ProbE()
		want := 1 / (1 + math.Pow(10, float64(c.V)/10))
		if !relClose(p, want, 1e-12) {
			return vlib.Failf("solexa-probe", "Qsolexa(%d).ProbE() = %g, want 1/(1+10^(q/10)) = %g", c.V, p, want)
		}
		if back := alphabet.Esolexa(p); back != q {
			return vlib.Failf("solexa-score-p-score", "Esolexa(Qsolexa(%d).ProbE()) = %d", c.V, back)
		}
		if c.V+1 < 127 {
			if next := alphabet.Qsolexa(c.V + 1).ProbE(); !(next <= p) {
				return vlib.Failf("solexa-monotone", "ProbE(%d)=%g > ProbE(%d)=%g", c.V+1, next, c.V, p)
			}
		}
		ph := solexaToPhred(float64(c.V))
		if f := nearest("solexa-to-phred", float64(q.Qphred()), ph); f != nil {
			f.Msg = "Qsolexa(" + itoa(c.V) + ").Qphred(): " + f.Msg
			return f
		}
		if c.V >= 10 && c.V <= 126 {
			if back := q.Qphred().Qsolexa(); back != q {
				return vlib.Failf("solexa-phred-solexa", "Qsolexa(%d).Qphred().Qsolexa() = %d", c.V, back)
			}
		}
	}
	return nil
}

func itoa(i int) string { return strconv.Itoa(i) }

func TestScores(t *testing.T) {
	vlib.RunEnum(t, vlib.Enum[scoreCase]{Name: "score-tables", Each: eachScore, Check: checkScore,
		Classes: func(c scoreCase) []string {
			if c.Type == "phred" && c.V < 254 || c.Type == "solexa" && c.V > -128 && c.V < 127 {
				return []string{c.Type, vlib.NT}
			}
			return []string{c.Type, "sentinel"}
		}})
}

// ---- probabilities ---------------------------------------------------------

type probCase struct {
	// p = 10^(-X/100) when !OneMinus, 1 - 10^(-X/100) otherwise; or midpoint between adjacent scores
	X        int
	OneMinus bool
}

func (c probCase) p() float64 {
	p := math.Pow(10, -float64(c.X)/100)
	if c.OneMinus {
		return 1 - p
	}
	return p
}

func eachProb(yield func(probCase) bool) {
	for x := 0; x <= 3000; x++ { // 10^0 … 10^-30 in steps of 0.01 decades
		if !yield(probCase{x, false}) {
			return
		}
		if x > 0 && x <= 1600 {
			if !yield(probCase{x, true}) {
				return
			}
		}
	}
}

func checkProb(c probCase) *vlib.Failure {
	p := c.p()
	if !(p > 0 && p <= 1) {
		return nil
	}
	// Phred
	a := -10 * math.Log10(p)
	got := float64(alphabet.Ephred(p))
	switch {
	case a >= 253.5:
		if got != 254 {
			return vlib.Failf("ephred-saturate", "Ephred(%g) = %v, analytic %.4f should saturate at 254", p, got, a)
		}
	default:
		if math.Abs(got-a) > roundTol {
			return vlib.Failf("ephred-nearest", "Ephred(%g) = %v, analytic %.6f", p, got, a)
		}
	}
	if p < 1 {
		s := -10 * math.Log10(p/(1-p))
		gs := float64(alphabet.Esolexa(p))
		switch {
		case s > 126.5:
			if gs < 126 {
				return vlib.Failf("esolexa-saturate", "Esolexa(%g) = %v, analytic %.4f should saturate at the top of the range", p, gs, s)
			}
		case s < -126.5:
			if gs > -126 {
				return vlib.Failf("esolexa-saturate", "Esolexa(%g) = %v, analytic %.4f should saturate at the bottom of the range", p, gs, s)
			}
		default:
			if math.Abs(gs-s) > roundTol {
				return vlib.Failf("esolexa-nearest", "Esolexa(%g) = %v, analytic %.6f", p, gs, s)
			}
		}
	}
	return nil
}

func TestProbabilities(t *testing.T) {
	vlib.RunEnum(t, vlib.Enum[probCase]{Name: "probability-grid", Each: eachProb, Check: checkProb,
		Classes: func(c probCase) []string {
			if c.OneMinus {
				return []string{"1-10^-x", vlib.NT}
			}
			return []string{"10^-x", vlib.NT}
		}})
}

// ---- wrappers: quality.Phred, quality.Solexa, linear.QSeq -------------------

type wrapCase struct {
	Offset int
	Enc    int8
	Scores []int // phred 0..253 or solexa -127..126
	SetPos int
	SetX   int // probability 10^(-SetX/100)
	Solexa bool
	// Enc2: after the first pass the container's encoding is changed (SetEncoding) to this
	// Phred-offset encoding and the encode/decode round trip is repeated under it: the container
	// follows its current encoding, not the one it had when it was first used
	Enc2 int8
	// ViaCopy: everything is asked of copies (Copy of the score containers, Clone of the sequence): a copy
	// is a container of the same encoding
	ViaCopy bool
}

func genWrap(t *rapid.T) wrapCase {
	c := wrapCase{Offset: rapid.IntRange(-20, 20).Draw(t, "offset"), Solexa: rapid.Bool().Draw(t, "solexa")}
	n := rapid.IntRange(1, 12).Draw(t, "n")
	if c.Solexa {
		c.Enc = int8(alphabet.Solexa)
		for i := 0; i < n; i++ {
			c.Scores = append(c.Scores, rapid.OneOf(rapid.IntRange(solexaLo, solexaHi), rapid.IntRange(-127, 126)).Draw(t, "s"))
		}
	} else {
		c.Enc = int8(rapid.SampledFrom(phredEncs).Draw(t, "enc"))
		for i := 0; i < n; i++ {
			c.Scores = append(c.Scores, rapid.OneOf(rapid.IntRange(0, 93), rapid.IntRange(0, 253)).Draw(t, "s"))
		}
	}
	c.SetPos = rapid.IntRange(0, n-1).Draw(t, "setpos")
	c.SetX = rapid.IntRange(0, 2500).Draw(t, "setx")
	c.Enc2 = int8(rapid.SampledFrom(phredEncs).Draw(t, "enc2"))
	c.ViaCopy = rapid.IntRange(0, 2).Draw(t, "via-copy") == 0
	return c
}

// rendered compares a textual rendering of a score container with the encoded bytes of its positions.
func rendered(what string, text func() string, encoded func(i int) byte, n int) (f *vlib.Failure) {
	defer func() {
		if r := recover(); r != nil {
			f = vlib.Failf("wrap-rendering-panic", "%s panicked: %v", what, r)
		}
	}()
	want := make([]byte, n)
	for i := range want {
		want[i] = encoded(i)
	}
	if got := text(); got != string(want) {
		return vlib.Failf("wrap-rendering", "%s = %q, the encoded scores are %q", what, got, want)
	}
	return nil
}

func checkWrap(c wrapCase) *vlib.Failure {
	e := alphabet.Encoding(c.Enc)
	p := math.Pow(10, -float64(c.SetX)/100)
	if c.Solexa {
		qs := make([]alphabet.Qsolexa, len(c.Scores))
		for i, s := range c.Scores {
			qs[i] = alphabet.Qsolexa(s)
		}
		q := quality.NewSolexa("q", qs, e)
		q.Offset = c.Offset
		if c.ViaCopy {
			q = q.Copy().(*quality.Solexa)
			if q.Encoding() != e {
				return vlib.Failf("wrap-copy-encoding", "the Copy of a Solexa container under %s has the encoding %s", encNames[e], encNames[q.Encoding()])
			}
		}
		for i, s := range c.Scores {
			pos := c.Offset + i
			if q.At(pos) != alphabet.Qsolexa(s) {
				return vlib.Failf("wrap-at", "Solexa.At(%d) = %d want %d", pos, q.At(pos), s)
			}
			if want := 1 / (1 + math.Pow(10, float64(s)/10)); !relClose(q.EAt(pos), want, 1e-12) {
				return vlib.Failf("wrap-eat", "Solexa.EAt(%d) = %g want %g", pos, q.EAt(pos), want)
			}
			if s >= solexaLo && s <= solexaHi {
				if got := q.QDecode(q.QEncode(pos)); got != alphabet.Qsolexa(s) {
					return vlib.Failf("wrap-roundtrip", "Solexa QDecode(QEncode(%d)) = %d want %d", pos, got, s)
				}
			}
		}
		// the whole container rendered as text is the encoded byte of every position, in order
		if f := rendered("Solexa.String()", func() string { return q.String() }, func(i int) byte { return q.QEncode(c.Offset + i) }, len(c.Scores)); f != nil {
			return f
		}
		{
			// a copy that is given another encoding and used does not change what the original writes
			before := q.String()
			cp := q.Copy().(*quality.Solexa)
			cp.SetEncoding(alphabet.Encoding(c.Enc2))
			_ = cp.String()
			for i := range c.Scores {
				cp.QEncode(c.Offset + i)
			}
			if after := q.String(); after != before {
				return vlib.Failf("wrap-copy-shares", "Solexa.String() = %q; after a copy was set to %s and rendered it is %q", before, encNames[alphabet.Encoding(c.Enc2)], after)
			}
		}
		if p < 1 {
			pos := c.Offset + c.SetPos
			q.SetE(pos, p)
			a := -10 * math.Log10(p/(1-p))
			if a <= 126.5 && a >= -126.5 && math.Abs(float64(q.At(pos))-a) > roundTol {
				return vlib.Failf("wrap-sete", "Solexa.SetE(%g) stored %d, analytic %.4f", p, q.At(pos), a)
			}
		}
		return nil
	}
	off, lo, hi := phredRange(e)
	_ = off
	qp := make([]alphabet.Qphred, len(c.Scores))
	ql := make([]alphabet.QLetter, len(c.Scores))
	for i, s := range c.Scores {
		qp[i] = alphabet.Qphred(s)
		ql[i] = alphabet.QLetter{L: 'a', Q: alphabet.Qphred(s)}
	}
	q := quality.NewPhred("q", qp, e)
	q.Offset = c.Offset
	ls := linear.NewQSeq("s", ql, alphabet.DNA, e)
	ls.Offset = c.Offset
	if c.ViaCopy {
		q = q.Copy().(*quality.Phred)
		ls = ls.Clone().(*linear.QSeq)
		if q.Encoding() != e || ls.Encoding() != e {
			return vlib.Failf("wrap-copy-encoding", "the Copy of a Phred container / the Clone of a sequence under %s have the encodings %s / %s", encNames[e], encNames[q.Encoding()], encNames[ls.Encoding()])
		}
	}
	for i, s := range c.Scores {
		pos := c.Offset + i
		want := math.Pow(10, -float64(s)/10)
		if q.At(pos) != alphabet.Qphred(s) || ls.At(pos).Q != alphabet.Qphred(s) {
			return vlib.Failf("wrap-at", "At(%d) = %d/%d want %d", pos, q.At(pos), ls.At(pos).Q, s)
		}
		if !relClose(q.EAt(pos), want, 1e-12) || !relClose(ls.EAt(pos), want, 1e-12) {
			return vlib.Failf("wrap-eat", "EAt(%d) = %g/%g want %g", pos, q.EAt(pos), ls.EAt(pos), want)
		}
		if s >= lo && s <= hi {
			if got := q.QDecode(q.QEncode(pos)); got != alphabet.Qphred(s) {
				return vlib.Failf("wrap-roundtrip", "Phred QDecode(QEncode(%d)) = %d want %d", pos, got, s)
			}
			if got := ls.Encode.DecodeToQphred(ls.QEncode(pos)); got != alphabet.Qphred(s) {
				return vlib.Failf("wrap-roundtrip", "QSeq decode(QEncode(%d)) = %d want %d", pos, got, s)
			}
			if int(ls.QEncode(pos)) != s+off {
				return vlib.Failf("wrap-encode-byte", "QSeq.QEncode(%d) = %d want %d", pos, ls.QEncode(pos), s+off)
			}
		}
	}
	// the whole container rendered as text is the encoded byte of every position, in order; for the
	// sequence type the text is the quality line of its FASTQ rendering (whatever the offset)
	if f := rendered("Phred.String()", func() string { return q.String() }, func(i int) byte { return q.QEncode(c.Offset + i) }, len(c.Scores)); f != nil {
		return f
	}
	if f := rendered("the quality line of fmt %q of a linear.QSeq", func() string {
		lines := strings.Split(fmt.Sprintf("%q", ls), "\n")
		if len(lines) != 4 {
			return fmt.Sprintf("(%d lines) %q", len(lines), lines)
		}
		// (scores outside the encoding's printable range are shown in some other way; their
		// positions are left out of the comparison)
		b := []byte(lines[3])
		for i, sc := range c.Scores {
			if i < len(b) && (sc < lo || sc > hi) {
				b[i] = ls.QEncode(c.Offset + i)
			}
		}
		return string(b)
	}, func(i int) byte { return ls.QEncode(c.Offset + i) }, len(c.Scores)); f != nil {
		return f
	}
	{
		// a copy that is given another encoding and used does not change what the original writes
		before := q.String()
		cp := q.Copy().(*quality.Phred)
		for _, enc := range []alphabet.Encoding{alphabet.Encoding(c.Enc2), alphabet.Solexa} {
			cp.SetEncoding(enc)
			_ = cp.String()
			for i := range c.Scores {
				cp.QEncode(c.Offset + i)
			}
			if after := q.String(); after != before {
				return vlib.Failf("wrap-copy-shares", "Phred.String() under %s = %q; after a copy was set to %s and rendered it is %q", encNames[e], before, encNames[enc], after)
			}
			for i, s := range c.Scores {
				if s >= lo && s <= hi {
					if got := q.QDecode(q.QEncode(c.Offset + i)); got != alphabet.Qphred(s) {
						return vlib.Failf("wrap-copy-shares", "Phred under %s, after a copy was set to %s and rendered: QDecode(QEncode(%d)) = %d want %d", encNames[e], encNames[enc], c.Offset+i, got, s)
					}
				}
			}
		}
	}
	// the same containers under another encoding
	e2 := alphabet.Encoding(c.Enc2)
	q.SetEncoding(e2)
	ls.SetEncoding(e2)
	off2, lo2, hi2 := phredRange(e2)
	if q.Encoding() != e2 || ls.Encoding() != e2 {
		return vlib.Failf("wrap-set-encoding", "Encoding() after SetEncoding(%s) = %s / %s", encNames[e2], encNames[q.Encoding()], encNames[ls.Encoding()])
	}
	for i, s := range c.Scores {
		pos := c.Offset + i
		if s >= lo2 && s <= hi2 {
			if got := q.QDecode(q.QEncode(pos)); got != alphabet.Qphred(s) {
				return vlib.Failf("wrap-roundtrip", "Phred created under %s, after SetEncoding(%s): QDecode(QEncode(%d)) = %d want %d", encNames[e], encNames[e2], pos, got, s)
			}
			if int(q.QEncode(pos)) != s+off2 || int(ls.QEncode(pos)) != s+off2 {
				return vlib.Failf("wrap-encode-byte", "after SetEncoding(%s): QEncode(%d) = %d / %d want %d", encNames[e2], pos, q.QEncode(pos), ls.QEncode(pos), s+off2)
			}
		}
	}
	// a sequence of Phred scores keeps their error probabilities whatever encoding it is written
	// in later on, the Solexa encoding included
	for _, enc := range []alphabet.Encoding{alphabet.Solexa, alphabet.None, e} {
		ls.SetEncoding(enc)
		for i, sc := range c.Scores {
			pos := c.Offset + i
			if want := math.Pow(10, -float64(sc)/10); !relClose(ls.EAt(pos), want, 1e-12) || ls.At(pos).Q != alphabet.Qphred(sc) {
				return vlib.Failf("wrap-eat", "linear.QSeq under the encoding %s: EAt(%d) = %g, score %d; the Phred score %d means %g", encNames[enc], pos, ls.EAt(pos), ls.At(pos).Q, sc, want)
			}
		}
	}
	// and a probability written into it is stored as the nearest Phred score whatever the encoding
	if a := -10 * math.Log10(p); a <= 253 {
		pos := c.Offset + c.SetPos
		keep := ls.At(pos)
		for _, enc := range []alphabet.Encoding{alphabet.Solexa, alphabet.None} {
			ls.SetEncoding(enc)
			ls.SetE(pos, p)
			if math.Abs(float64(ls.At(pos).Q)-a) > roundTol {
				return vlib.Failf("wrap-sete", "linear.QSeq under the encoding %s: SetE(%g) stored %d, analytic %.4f", encNames[enc], p, ls.At(pos).Q, a)
			}
			ls.Set(pos, keep)
		}
	}
	ls.SetEncoding(e2)
	pos := c.Offset + c.SetPos
	q.SetE(pos, p)
	ls.SetE(pos, p)
	a := -10 * math.Log10(p)
	if math.Abs(float64(q.At(pos))-a) > roundTol || math.Abs(float64(ls.At(pos).Q)-a) > roundTol {
		return vlib.Failf("wrap-sete", "SetE(%g) stored %d/%d, analytic %.4f", p, q.At(pos), ls.At(pos).Q, a)
	}
	return nil
}

func TestWrappers(t *testing.T) {
	vlib.Run(t, vlib.Prop[wrapCase]{Name: "score-containers", Checks: 3000, Thorough: 200000, Gen: genWrap, Check: checkWrap,
		Classes: func(c wrapCase) []string {
			l := []string{encNames[alphabet.Encoding(c.Enc)]}
			if c.ViaCopy {
				l = append(l, "asked-of-copies")
			}
			if len(c.Scores) >= 2 && c.Offset != 0 {
				l = append(l, vlib.NT)
			}
			return l
		}, MinFrac: map[string]float64{"asked-of-copies": 0.2}})
}
