// C11 — external sort yields the sorted multiset of its input for every usage history.
package c11

import (
	"fmt"
	"io"
	"os"
	"sort"
	"testing"
	"time"

	"github.com/biogo/biogo/morass"
	"pgregory.net/rapid"

	mx "verif/internal/morassx"
	"verif/internal/morassx/twin"
	"verif/internal/vlib"
)

func TestMain(m *testing.M) { vlib.Main(m, "C11"); os.Exit(0) }

func genCount(t *rapid.T, chunk int) int {
	switch rapid.IntRange(0, 9).Draw(t, "count-class") {
	case 0:
		return 0
	case 1:
		return 1
	case 2:
		return max(0, chunk-1)
	case 3:
		return chunk
	case 4:
		return chunk + 1
	case 5:
		return 2 * chunk
	case 6:
		return 3*chunk + 1
	case 7:
		return rapid.IntRange(0, chunk).Draw(t, "count-small")
	default:
		return rapid.IntRange(0, 5*chunk+3).Draw(t, "count")
	}
}

func genHistory(concurrent bool) func(t *rapid.T) mx.History {
	return func(t *rapid.T) mx.History {
		h := mx.History{Chunk: rapid.IntRange(1, 8).Draw(t, "chunk"), Struct: rapid.Bool().Draw(t, "struct"), AutoClear: rapid.Bool().Draw(t, "auto-clear"), Concurrent: concurrent}
		if rapid.IntRange(0, 5).Draw(t, "awkward-names") == 3 {
			h.Names = rapid.IntRange(1, 4).Draw(t, "names")
		}
		if rapid.IntRange(0, 24).Draw(t, "large-runs") == 0 {
			// runs larger than the 4 KiB read buffer of the gob decoder: file reads then happen during Pull
			h.Chunk = rapid.IntRange(150, 400).Draw(t, "large-chunk")
		}
		n := rapid.IntRange(1, 4).Draw(t, "ncycles")
		for i := 0; i < n; i++ {
			c := mx.Cycle{Pull: -1, Clear: rapid.Bool().Draw(t, "clear"), EOFOnce: rapid.Bool().Draw(t, "eof-once")}
			cnt := genCount(t, h.Chunk)
			for k := 0; k < cnt; k++ {
				c.Keys = append(c.Keys, rapid.IntRange(-6, 6).Draw(t, "key")) // small range around zero: duplicate keys, zero after negatives
			}
			if rapid.IntRange(0, 2).Draw(t, "partial") == 0 && cnt > 0 {
				c.Pull = rapid.IntRange(0, cnt).Draw(t, "pull")
			}
			h.Cycles = append(h.Cycles, c)
		}
		return h
	}
}

func check(h mx.History) *vlib.Failure {
	s, err := mx.NewSorter(h)
	if err != nil {
		return vlib.Failf("setup", "%v", err)
	}
	defer s.Close()
	done := make(chan *mx.Err, 1)
	go func() {
		defer func() {
			if r := recover(); r != nil {
				done <- &mx.Err{Kind: "panic", Msg: fmt.Sprint(r)}
			}
		}()
		_, e := mx.Run(h, s, false)
		done <- e
	}()
	var e *mx.Err
	got := false
	select {
	case e = <-done:
		got = true
	case <-time.After(30 * time.Second):
		// slow (busy machine, slow disk) or blocked for good?
		if vlib.ConfirmDeadlock(150*time.Second, func() bool {
			select {
			case e = <-done:
				got = true
			default:
			}
			return got
		}) {
			return vlib.Failf("deadlock", "the history did not finish: every goroutine inside the sorter is blocked on a channel or lock (or 180 s passed)")
		}
	}
	if got && e != nil {
		return &vlib.Failure{Kind: e.Kind, Msg: e.Msg}
	}
	return nil
}

func classes(h mx.History) []string {
	var l []string
	modes := map[bool]bool{}
	modeChange, partialThenMore, memThenDisk := false, false, false
	for i, c := range h.Cycles {
		sp := len(c.Keys) >= h.Chunk
		modes[sp] = true
		if i > 0 {
			prev := len(h.Cycles[i-1].Keys) >= h.Chunk
			if prev != sp {
				modeChange = true
			}
			if !prev && sp {
				memThenDisk = true
			}
			p := h.Cycles[i-1]
			if p.Pull >= 0 && p.Pull < len(p.Keys) {
				partialThenMore = true
			}
		}
	}
	if modes[true] {
		l = append(l, "spills")
	}
	if modes[false] {
		l = append(l, "in-memory")
	}
	if modeChange {
		l = append(l, "mode-change")
	}
	if memThenDisk {
		l = append(l, "memory-then-disk")
	}
	if partialThenMore {
		l = append(l, "partial-drain-then-cycle")
	}
	if h.Struct {
		l = append(l, "struct")
	}
	if h.Chunk >= 150 && modes[true] {
		l = append(l, "runs-larger-than-read-buffer")
	}
	if h.AutoClear {
		l = append(l, "auto-clear")
	}
	if len(h.Cycles) >= 2 && (modeChange || partialThenMore) {
		l = append(l, vlib.NT)
	}
	return l
}

var minFrac = map[string]float64{"memory-then-disk": 0.1, "partial-drain-then-cycle": 0.1, "spills": 0.5, "in-memory": 0.5}

func TestSequential(t *testing.T) {
	vlib.Run(t, vlib.Prop[mx.History]{Name: "sequential-histories", Checks: 2000, Thorough: 160000, Gen: genHistory(false), Check: check, Classes: classes, MinFrac: minFrac})
}

func TestConcurrentFree(t *testing.T) {
	vlib.Run(t, vlib.Prop[mx.History]{Name: "concurrent-mode-free-schedule", Checks: 1000, Thorough: 80000, Gen: genHistory(true), Check: check, Classes: classes, MinFrac: minFrac})
}

// twinCase: sorters over element types of different packages that share their unqualified names, used in one
// program (the usage histories above run in the same process, before or after).
type twinCase struct {
	Chunk int   `json:"chunk"`
	A     []int `json:"a"` // pushed as morassx.IntT (increasing order)
	B     []int `json:"b"` // pushed as twin.IntT (decreasing order)
	C     []int `json:"c"` // pushed as twin.RecT
	Order int   `json:"order"`
}

func genTwin(t *rapid.T) twinCase {
	c := twinCase{Chunk: rapid.IntRange(1, 6).Draw(t, "chunk"), Order: rapid.IntRange(0, 5).Draw(t, "order")}
	keys := func(label string) []int {
		n := genCount(t, c.Chunk)
		var l []int
		for i := 0; i < n; i++ {
			l = append(l, rapid.IntRange(-6, 6).Draw(t, label))
		}
		return l
	}
	c.A, c.B, c.C = keys("a"), keys("b"), keys("c")
	return c
}

func sortTwin(which string, chunk int, keys []int) *vlib.Failure {
	parent, err := os.MkdirTemp("", "vtwin")
	if err != nil {
		return vlib.Failf("setup", "%v", err)
	}
	defer os.RemoveAll(parent)
	var e interface{}
	switch which {
	case "morassx.IntT":
		e = mx.IntT(0)
	case "twin.IntT":
		e = twin.IntT(0)
	default:
		e = twin.RecT{}
	}
	m, err := morass.New(e, "run", parent, chunk, false)
	if err != nil {
		return vlib.Failf("setup", "%v", err)
	}
	defer m.CleanUp()
	for i, k := range keys {
		switch which {
		case "morassx.IntT":
			err = m.Push(mx.IntT(k))
		case "twin.IntT":
			err = m.Push(twin.IntT(k))
		default:
			err = m.Push(twin.RecT{Key: k, Note: fmt.Sprint("n", i%3)})
		}
		if err != nil {
			return vlib.Failf("twin-error", "%s (chunk %d, %d values): Push %d: %v", which, chunk, len(keys), i, err)
		}
	}
	if err := m.Finalise(); err != nil {
		return vlib.Failf("twin-error", "%s (chunk %d, %d values): Finalise: %v", which, chunk, len(keys), err)
	}
	want := append([]int(nil), keys...)
	sort.Ints(want)
	if which == "twin.IntT" {
		sort.Sort(sort.Reverse(sort.IntSlice(want)))
	}
	var got []int
	for {
		var k int
		switch which {
		case "morassx.IntT":
			var v mx.IntT
			err = m.Pull(&v)
			k = int(v)
		case "twin.IntT":
			var v twin.IntT
			err = m.Pull(&v)
			k = int(v)
		default:
			var v twin.RecT
			err = m.Pull(&v)
			k = v.Key
		}
		if err == io.EOF {
			break
		}
		if err != nil {
			return vlib.Failf("twin-error", "%s (chunk %d, %d values): Pull %d: %v", which, chunk, len(keys), len(got), err)
		}
		got = append(got, k)
		if len(got) > len(keys) {
			break
		}
	}
	if fmt.Sprint(got) != fmt.Sprint(want) {
		return vlib.Failf("twin-values", "%s (chunk %d): pulled %v, want %v", which, chunk, got, want)
	}
	return nil
}

func checkTwin(c twinCase) *vlib.Failure {
	orders := [][3]int{{0, 1, 2}, {0, 2, 1}, {1, 0, 2}, {1, 2, 0}, {2, 0, 1}, {2, 1, 0}}
	names := []string{"morassx.IntT", "twin.IntT", "twin.RecT"}
	keys := [][]int{c.A, c.B, c.C}
	for _, i := range orders[c.Order%6] {
		if f := sortTwin(names[i], c.Chunk, keys[i]); f != nil {
			return f
		}
	}
	return nil
}

func TestTwinTypes(t *testing.T) {
	vlib.Run(t, vlib.Prop[twinCase]{Name: "element-types-with-the-same-name", Checks: 200, Thorough: 8000, Gen: genTwin, Check: checkTwin,
		Classes: func(c twinCase) []string {
			var l []string
			n := 0
			for _, k := range [][]int{c.A, c.B, c.C} {
				if len(k) >= c.Chunk {
					n++
				}
			}
			if n >= 2 {
				l = append(l, "two-types-spill", vlib.NT)
			}
			return l
		}, MinFrac: map[string]float64{"two-types-spill": 0.3}})
}
