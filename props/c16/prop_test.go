// C16 — piles are exactly the overlap-connected components of the added features.
//
// Oracle: union-find over closed-interval overlap (overlapping or abutting)
// per location, written here; nothing is taken from the interval tree.
package c16

import (
	"fmt"
	"io"
	"log"
	"os"
	"sort"
	"testing"

	"github.com/biogo/biogo/align/pals"
	"github.com/biogo/biogo/io/featio/gff"
	"pgregory.net/rapid"

	"verif/internal/vlib"
)

func TestMain(m *testing.M) { vlib.Main(m, "C16"); os.Exit(0) }

type iv struct {
	C int `json:"c"` // contig
	S int `json:"s"`
	E int `json:"e"`
}

type pairT struct {
	A     iv  `json:"a"`
	B     iv  `json:"b"`
	Score int `json:"score"`
}

type pileCase struct {
	Pairs  []pairT `json:"pairs"`
	Perm   []int   `json:"perm"`            // second insertion order
	Flip   []bool  `json:"flip"`            // second order: add the pair with A and B swapped
	ReAdd  []int   `json:"readd"`           // indices of pairs re-added (must be rejected)
	ReFlip []bool  `json:"reflip"`          // re-add in swapped orientation
	Filter int     `json:"filter"`          // score threshold of the filter used in the second Piles call
	Calls  []int   `json:"calls,omitempty"` // a further sequence of Piles calls: 0 nil, 1 score filter, 2 reject all, 3 pile-aware filter
	// PilePct parametrises a filter that looks at the piles of both images (as
	// the filter in the package's own TestPiler does): a pair passes when each
	// image covers at least PilePct percent of its pile. It is used on the
	// FIRST Piles call of a fresh piler.
	PilePct int `json:"pile_pct"`
	// ViaGFF: the pairs are made by pals.ExpandFeature from GFF features carrying a Target attribute
	// (the way pairs come back from a PALS feature file), not put together by hand
	ViaGFF bool `json:"via_gff,omitempty"`
	// LogFreq > 0: the piler's exported progress options are set (Logger writing to io.Discard, a line every
	// LogFreq steps); logging changes nothing of what is reported
	LogFreq int `json:"log_freq,omitempty"`
}

var contigs = []pals.Contig{"c0", "c1", "c2"}

func overlap(a, b iv) bool { return a.C == b.C && a.E >= b.S && a.S <= b.E }

type key struct {
	a, b iv
}

// build adds the pairs in the given order and returns the piler, the created
// pairs (nil for rejected ones) and an error string if Add misbehaved.
func build(c pileCase, order []int, flip []bool) (*pals.Piler, []*pals.Pair, []bool, *vlib.Failure) {
	p := pals.NewPiler(0)
	if c.LogFreq > 0 {
		p.Logger, p.LogFreq = log.New(io.Discard, "", 0), c.LogFreq
	}
	pairs := make([]*pals.Pair, len(c.Pairs))
	accepted := make([]bool, len(c.Pairs))
	seen := map[key]bool{}
	for k, i := range order {
		pt := c.Pairs[i]
		a := &pals.Feature{ID: fmt.Sprintf("p%da", i), From: pt.A.S, To: pt.A.E, Loc: contigs[pt.A.C]}
		b := &pals.Feature{ID: fmt.Sprintf("p%db", i), From: pt.B.S, To: pt.B.E, Loc: contigs[pt.B.C]}
		fp := &pals.Pair{A: a, B: b, Score: pt.Score}
		if c.ViaGFF {
			sc := float64(pt.Score)
			x, y := pt.A, pt.B
			if flip != nil && flip[k%len(flip)] {
				x, y = y, x
			}
			g := &gff.Feature{SeqName: string(contigs[x.C]), Source: "pals", Feature: "hit", FeatStart: x.S, FeatEnd: x.E, FeatScore: &sc,
				FeatAttributes: gff.Attributes{{Tag: "Target", Value: fmt.Sprintf("%s %d %d", contigs[y.C], y.S+1, y.E)}, {Tag: "maxe", Value: "0.1"}}}
			var err error
			if fp, err = pals.ExpandFeature(g); err != nil {
				return nil, nil, nil, vlib.Failf("expand-feature", "pair %d %v: ExpandFeature: %v", i, pt, err)
			}
			a, b = fp.A, fp.B
			if flip != nil && flip[k%len(flip)] {
				a, b = fp.B, fp.A
			}
			a.ID, b.ID = fmt.Sprintf("p%da", i), fmt.Sprintf("p%db", i)
			if a.From != pt.A.S || a.To != pt.A.E || b.From != pt.B.S || b.To != pt.B.E || a.Loc.Name() != string(contigs[pt.A.C]) || b.Loc.Name() != string(contigs[pt.B.C]) {
				return nil, nil, nil, vlib.Failf("expand-feature", "pair %d %v: ExpandFeature gave %s[%d,%d) / %s[%d,%d)", i, pt, a.Loc.Name(), a.From, a.To, b.Loc.Name(), b.From, b.To)
			}
		} else if flip != nil && flip[k%len(flip)] {
			fp.A, fp.B = b, a
		}
		a.Pair, b.Pair = fp, fp
		dup := seen[key{pt.A, pt.B}] || seen[key{pt.B, pt.A}]
		err := p.Add(fp)
		if dup && err == nil {
			return nil, nil, nil, vlib.Failf("duplicate-accepted", "pair %d %v duplicates an earlier pair (coordinates, either orientation) and was accepted", i, pt)
		}
		if !dup && err != nil {
			return nil, nil, nil, vlib.Failf("add-rejected", "pair %d %v is not a duplicate and was rejected: %v", i, pt, err)
		}
		if err == nil {
			seen[key{pt.A, pt.B}] = true
			pairs[i] = fp
			accepted[i] = true
		}
	}
	return p, pairs, accepted, nil
}

type feature struct {
	pair int
	side byte
	iv   iv
}

// components computes the expected partition: sorted member lists with the union interval.
type comp struct {
	c, from, to int
	members     []string
}

func expected(c pileCase, accepted []bool) []comp {
	var fs []feature
	for i, pt := range c.Pairs {
		if !accepted[i] {
			continue
		}
		fs = append(fs, feature{i, 'a', pt.A}, feature{i, 'b', pt.B})
	}
	parent := make([]int, len(fs))
	for i := range parent {
		parent[i] = i
	}
	var find func(int) int
	find = func(x int) int {
		if parent[x] != x {
			parent[x] = find(parent[x])
		}
		return parent[x]
	}
	for i := range fs {
		for j := i + 1; j < len(fs); j++ {
			if overlap(fs[i].iv, fs[j].iv) {
				parent[find(i)] = find(j)
			}
		}
	}
	m := map[int]*comp{}
	for i, f := range fs {
		r := find(i)
		cp := m[r]
		if cp == nil {
			cp = &comp{c: f.iv.C, from: f.iv.S, to: f.iv.E}
			m[r] = cp
		}
		if f.iv.S < cp.from {
			cp.from = f.iv.S
		}
		if f.iv.E > cp.to {
			cp.to = f.iv.E
		}
		cp.members = append(cp.members, fmt.Sprintf("p%d%c", f.pair, f.side))
	}
	var out []comp
	for _, cp := range m {
		sort.Strings(cp.members)
		out = append(out, *cp)
	}
	sortComps(out)
	return out
}

func sortComps(cs []comp) {
	sort.Slice(cs, func(i, j int) bool {
		if cs[i].c != cs[j].c {
			return cs[i].c < cs[j].c
		}
		if cs[i].from != cs[j].from {
			return cs[i].from < cs[j].from
		}
		return cs[i].to < cs[j].to
	})
}

func contigIndex(n string) int {
	for i, c := range contigs {
		if string(c) == n {
			return i
		}
	}
	return -1
}

// observe converts the piles returned by the library into comps and checks the
// per-pile invariants. keep reports whether a pair passes the filter in use.
func observe(tag string, piles []*pals.Pile, pairs []*pals.Pair, keep func(*pals.Pair) bool, exp []comp) *vlib.Failure {
	var got []comp
	seenFeat := map[*pals.Feature]bool{}
	for _, pl := range piles {
		if pl == nil {
			return vlib.Failf("nil-pile", "%s: nil pile returned", tag)
		}
		cp := comp{c: contigIndex(pl.Loc.Name()), from: pl.From, to: pl.To}
		for _, im := range pl.Images {
			if seenFeat[im] {
				return vlib.Failf("feature-in-two-piles", "%s: feature %s appears twice in the piles", tag, im.ID)
			}
			seenFeat[im] = true
			if !keep(im.Pair) {
				return vlib.Failf("filter", "%s: pile holds %s whose pair the filter rejects", tag, im.ID)
			}
			if im.Location() != pl {
				return vlib.Failf("location", "%s: feature %s is listed in pile %s but its Location() is %v", tag, im.ID, pl.Name(), im.Location())
			}
			if im.Start() < pl.From || im.End() > pl.To {
				return vlib.Failf("pile-interval", "%s: feature %s [%d,%d) extends beyond its pile [%d,%d)", tag, im.ID, im.Start(), im.End(), pl.From, pl.To)
			}
			cp.members = append(cp.members, im.ID)
		}
		sort.Strings(cp.members)
		got = append(got, cp)
	}
	sortComps(got)
	// disjoint and non-abutting per location
	for i := 1; i < len(got); i++ {
		if got[i].c == got[i-1].c && got[i].from <= got[i-1].to {
			return vlib.Failf("piles-not-disjoint", "%s: piles [%d,%d) and [%d,%d) on contig %d overlap or abut", tag, got[i-1].from, got[i-1].to, got[i].from, got[i].to, got[i].c)
		}
	}
	// every accepted feature: mate intact and its location is a pile that is in the returned list
	inList := map[*pals.Pile]bool{}
	for _, pl := range piles {
		inList[pl] = true
	}
	for i, fp := range pairs {
		if fp == nil {
			continue
		}
		if fp.A.Mate() != fp.B || fp.B.Mate() != fp.A || fp.A.Pair != fp || fp.B.Pair != fp {
			return vlib.Failf("mate", "%s: pair %d lost its mate links", tag, i)
		}
		for _, f := range []*pals.Feature{fp.A, fp.B} {
			pl, ok := f.Location().(*pals.Pile)
			if !ok || !inList[pl] {
				return vlib.Failf("location", "%s: Location() of %s is %v, not one of the returned piles", tag, f.ID, f.Location())
			}
			if keep(fp) && !seenFeat[f] {
				return vlib.Failf("feature-missing", "%s: feature %s [%d,%d) appears in no pile", tag, f.ID, f.From, f.To)
			}
		}
	}
	// partition equals the expected components (members restricted by the filter)
	if len(got) != len(exp) {
		return vlib.Failf("partition", "%s: %d piles %s, expected %d components %s", tag, len(got), fmtComps(got), len(exp), fmtComps(exp))
	}
	for i := range exp {
		g, e := got[i], exp[i]
		if g.c != e.c || g.from != e.from || g.to != e.to {
			return vlib.Failf("pile-interval", "%s: pile %d is contig %d [%d,%d), the component is contig %d [%d,%d) (union of its members)\n got %s\n exp %s", tag, i, g.c, g.from, g.to, e.c, e.from, e.to, fmtComps(got), fmtComps(exp))
		}
		var em []string
		for _, m := range e.members {
			var pi int
			var side byte
			fmt.Sscanf(m, "p%d%c", &pi, &side)
			if keep(pairs[pi]) {
				em = append(em, m)
			}
		}
		if fmt.Sprint(g.members) != fmt.Sprint(em) {
			return vlib.Failf("partition", "%s: pile [%d,%d) holds %v, expected %v", tag, g.from, g.to, g.members, em)
		}
	}
	// the returned list is the caller's: it is compacted and overwritten here, which a later Piles call
	// must not notice
	for i := range piles {
		piles[i] = piles[len(piles)-1-i/2]
	}
	if len(piles) > 0 {
		piles[0] = nil
	}
	return nil
}

func fmtComps(cs []comp) string {
	s := ""
	for _, c := range cs {
		s += fmt.Sprintf("{c%d [%d,%d) %v} ", c.c, c.from, c.to, c.members)
	}
	return s
}

func identity(n int) []int {
	o := make([]int, n)
	for i := range o {
		o[i] = i
	}
	return o
}

// pileFilter returns the filter of the package's own TestPiler (each image
// covers at least PilePct percent of its pile) together with the verdict the
// model components give for every pair.
func pileFilter(c pileCase, pairs []*pals.Pair, exp []comp) (byPile, model func(*pals.Pair) bool) {
	span := map[string]int{}
	for _, cp := range exp {
		for _, m := range cp.members {
			span[m] = cp.to - cp.from
		}
	}
	verdict := map[*pals.Pair]bool{}
	for i, fp := range pairs {
		if fp == nil {
			continue
		}
		pt := c.Pairs[i]
		verdict[fp] = (pt.A.E-pt.A.S)*100 >= c.PilePct*span[fmt.Sprintf("p%da", i)] &&
			(pt.B.E-pt.B.S)*100 >= c.PilePct*span[fmt.Sprintf("p%db", i)]
	}
	covers := func(f *pals.Feature) bool {
		pl, ok := f.Location().(*pals.Pile)
		return ok && f.Len()*100 >= c.PilePct*pl.Len()
	}
	byPile = func(p *pals.Pair) bool { return covers(p.A) && covers(p.B) }
	model = func(p *pals.Pair) bool { return verdict[p] }
	return byPile, model
}

var callNames = []string{"nil", "score", "false", "pile"}

// callSequence applies the generated sequence of Piles calls (any filter after
// any other) to one piler and checks every result against the model.
func callSequence(c pileCase, tag string, p *pals.Piler, pairs []*pals.Pair, exp []comp) *vlib.Failure {
	all := func(*pals.Pair) bool { return true }
	none := func(*pals.Pair) bool { return false }
	byScore := func(p *pals.Pair) bool { return p.Score >= c.Filter }
	byPile, model := pileFilter(c, pairs, exp)
	hist := tag
	for _, k := range c.Calls {
		k = ((k % 4) + 4) % 4
		hist += "/" + callNames[k]
		var f *vlib.Failure
		switch k {
		case 0:
			f = observe(hist, p.Piles(nil), pairs, all, exp)
		case 1:
			f = observe(hist, p.Piles(byScore), pairs, byScore, exp)
		case 2:
			f = observe(hist, p.Piles(none), pairs, none, exp)
		default:
			f = observe(hist, p.Piles(byPile), pairs, model, exp)
		}
		if f != nil {
			return f
		}
	}
	return nil
}

func check(c pileCase) *vlib.Failure {
	all := func(*pals.Pair) bool { return true }
	none := func(*pals.Pair) bool { return false }
	byScore := func(p *pals.Pair) bool { return p.Score >= c.Filter }

	// order 1
	p1, pairs1, acc1, f := build(c, identity(len(c.Pairs)), nil)
	if f != nil {
		return f
	}
	exp := expected(c, acc1)
	// re-adding any accepted pair, in either orientation, is rejected and changes nothing
	for k, i := range c.ReAdd {
		if len(c.Pairs) == 0 {
			break
		}
		i %= len(c.Pairs)
		pt := c.Pairs[i]
		a := &pals.Feature{ID: "dupA", From: pt.A.S, To: pt.A.E, Loc: contigs[pt.A.C]}
		b := &pals.Feature{ID: "dupB", From: pt.B.S, To: pt.B.E, Loc: contigs[pt.B.C]}
		fp := &pals.Pair{A: a, B: b}
		if len(c.ReFlip) > 0 && c.ReFlip[k%len(c.ReFlip)] {
			fp.A, fp.B = b, a
		}
		a.Pair, b.Pair = fp, fp
		shared := false
		if orig := pairs1[i]; orig != nil && k%2 == 1 {
			// the same pair again as another Pair value over the very same feature objects (swapped or
			// not): refused like any duplicate, and the features keep pointing at the pair that was added
			shared = true
			fp = &pals.Pair{A: orig.A, B: orig.B, Score: orig.Score}
			if len(c.ReFlip) > 0 && c.ReFlip[k%len(c.ReFlip)] {
				fp.A, fp.B = orig.B, orig.A
			}
		}
		if err := p1.Add(fp); err == nil {
			return vlib.Failf("duplicate-accepted", "re-adding pair %d %v (flipped=%v, same feature objects=%v) was accepted", i, pt, fp.A == b, shared)
		}
		if shared {
			vlib.Count("duplicates-over-the-same-feature-objects-refused", 1)
		}
	}
	if f := observe("order1/nil-filter", p1.Piles(nil), pairs1, all, exp); f != nil {
		return f
	}
	if f := observe("order1/score-filter", p1.Piles(byScore), pairs1, byScore, exp); f != nil {
		return f
	}
	if f := observe("order1/false-filter", p1.Piles(none), pairs1, none, exp); f != nil {
		return f
	}
	if f := observe("order1/nil-filter-again", p1.Piles(nil), pairs1, all, exp); f != nil {
		return f
	}

	// order 3: a fresh piler whose first Piles call carries a filter that
	// inspects the piles of both images of the pair. The expected verdict per
	// pair is computed from the model components.
	{
		p3, pairs3, acc3, f := build(c, identity(len(c.Pairs)), nil)
		if f != nil {
			return f
		}
		exp3 := expected(c, acc3)
		byPile, model := pileFilter(c, pairs3, exp3)
		if f := observe("order3/first-call-pile-filter", p3.Piles(byPile), pairs3, model, exp3); f != nil {
			return f
		}
		if f := observe("order3/pile-filter-again", p3.Piles(byPile), pairs3, model, exp3); f != nil {
			return f
		}
		if f := callSequence(c, "order3/then", p3, pairs3, exp3); f != nil {
			return f
		}
	}

	// order 2: permuted insertion, optionally flipped orientation. The set of
	// accepted pairs can differ only in which member of a duplicate group is
	// kept; duplicates have equal coordinates, so the expected partition is the
	// same up to the identity of the kept member.
	if len(c.Perm) == len(c.Pairs) && len(c.Pairs) > 0 {
		p2, pairs2, acc2, f := build(c, c.Perm, c.Flip)
		if f != nil {
			f.Msg = "permuted order: " + f.Msg
			return f
		}
		exp2 := expected(c, acc2)
		if f := callSequence(c, "order2", p2, pairs2, exp2); f != nil {
			return f
		}
		if f := observe("order2/nil-filter", p2.Piles(nil), pairs2, all, exp2); f != nil {
			return f
		}
		if len(exp) != len(exp2) {
			return vlib.Failf("order-dependence", "insertion order changes the number of piles: %d vs %d", len(exp), len(exp2))
		}
		for i := range exp {
			if exp[i].c != exp2[i].c || exp[i].from != exp2[i].from || exp[i].to != exp2[i].to {
				return vlib.Failf("order-dependence", "insertion order changes pile %d", i)
			}
		}
	}
	return nil
}

func genIv(t *rapid.T, nc int, label string) iv {
	s := rapid.IntRange(0, 40).Draw(t, label+"-s")
	var l int
	switch rapid.IntRange(0, 9).Draw(t, label+"-lenclass") {
	case 0:
		l = 0
	case 1:
		l = 1
	default:
		l = rapid.IntRange(1, 15).Draw(t, label+"-len")
	}
	return iv{C: rapid.IntRange(0, nc-1).Draw(t, label+"-c"), S: s, E: s + l}
}

func gen(t *rapid.T) pileCase {
	var c pileCase
	nc := rapid.IntRange(1, 3).Draw(t, "ncontigs")
	n := rapid.IntRange(1, 12).Draw(t, "npairs")
	for i := 0; i < n; i++ {
		p := pairT{A: genIv(t, nc, "a"), B: genIv(t, nc, "b"), Score: rapid.IntRange(0, 10).Draw(t, "score")}
		if i > 0 {
			switch rapid.IntRange(0, 9).Draw(t, "relate") {
			case 0: // duplicate coordinates of an earlier pair (possibly flipped)
				q := c.Pairs[rapid.IntRange(0, i-1).Draw(t, "dup-of")]
				p.A, p.B = q.A, q.B
				if rapid.Bool().Draw(t, "dup-flip") {
					p.A, p.B = q.B, q.A
				}
			case 1: // abut an earlier feature
				q := c.Pairs[rapid.IntRange(0, i-1).Draw(t, "abut-of")]
				p.A = iv{C: q.A.C, S: q.A.E, E: q.A.E + rapid.IntRange(0, 6).Draw(t, "abut-len")}
			case 2: // share one feature's coordinates with an earlier pair
				q := c.Pairs[rapid.IntRange(0, i-1).Draw(t, "share-of")]
				p.A = q.B
			}
		}
		c.Pairs = append(c.Pairs, p)
	}
	c.Perm = rapid.Permutation(identity(n)).Draw(t, "perm")
	c.Flip = rapid.SliceOfN(rapid.Bool(), 1, 4).Draw(t, "flip")
	c.ReAdd = rapid.SliceOfN(rapid.IntRange(0, n-1), 0, 3).Draw(t, "readd")
	c.ReFlip = rapid.SliceOfN(rapid.Bool(), 1, 3).Draw(t, "reflip")
	c.Filter = rapid.IntRange(0, 11).Draw(t, "filter")
	c.Calls = rapid.SliceOfN(rapid.IntRange(0, 3), 0, 5).Draw(t, "piles-calls")
	c.PilePct = rapid.SampledFrom([]int{0, 30, 50, 80, 95, 100}).Draw(t, "pile-pct")
	c.ViaGFF = rapid.IntRange(0, 3).Draw(t, "via-gff") == 2
	if rapid.IntRange(0, 3).Draw(t, "progress-logging") == 1 {
		c.LogFreq = rapid.IntRange(1, 4).Draw(t, "log-freq")
	}
	return c
}

func classes(c pileCase) []string {
	var l []string
	acc := make([]bool, len(c.Pairs))
	seen := map[key]bool{}
	dups := false
	for i, p := range c.Pairs {
		if seen[key{p.A, p.B}] || seen[key{p.B, p.A}] {
			dups = true
			continue
		}
		seen[key{p.A, p.B}] = true
		acc[i] = true
	}
	if dups {
		l = append(l, "duplicate-pair")
	}
	exp := expected(c, acc)
	chain := false
	for _, cp := range exp {
		if len(cp.members) >= 3 {
			// is there a pair of members that do not overlap directly?
			var ivs []iv
			for _, m := range cp.members {
				var pi int
				var side byte
				fmt.Sscanf(m, "p%d%c", &pi, &side)
				if side == 'a' {
					ivs = append(ivs, c.Pairs[pi].A)
				} else {
					ivs = append(ivs, c.Pairs[pi].B)
				}
			}
			for i := range ivs {
				for j := i + 1; j < len(ivs); j++ {
					if !overlap(ivs[i], ivs[j]) {
						chain = true
					}
				}
			}
		}
	}
	if chain {
		l = append(l, "chained-component", vlib.NT)
	}
	zero, abut := false, false
	var all []iv
	for _, p := range c.Pairs {
		all = append(all, p.A, p.B)
	}
	for i, a := range all {
		if a.S == a.E {
			zero = true
		}
		for _, b := range all[i+1:] {
			if a.C == b.C && (a.E == b.S || b.E == a.S) {
				abut = true
			}
		}
	}
	if zero {
		l = append(l, "zero-length-feature")
	}
	if abut {
		l = append(l, "abutting-features")
	}
	if len(c.ReAdd) > 0 {
		l = append(l, "re-add")
	}
	for i := 1; i < len(c.Calls); i++ {
		if c.Calls[i] == 0 && c.Calls[i-1]%4 != 0 && c.Calls[i-1]%4 != 2 {
			l = append(l, "unfiltered-call-after-partly-filtered-call")
			break
		}
	}
	// the pile-aware filter separates pairs (some pass, some do not) and some
	// pair has its images on two locations
	if c.LogFreq > 0 && len(c.Pairs) >= 2 {
		l = append(l, "progress-logging-on")
	}
	if c.ViaGFF {
		l = append(l, "pairs-made-by-ExpandFeature")
	}
	if c.PilePct > 0 {
		span := map[string]int{}
		for _, cp := range exp {
			for _, m := range cp.members {
				span[m] = cp.to - cp.from
			}
		}
		pass, fail, cross := 0, 0, false
		for i, pt := range c.Pairs {
			if !acc[i] {
				continue
			}
			if (pt.A.E-pt.A.S)*100 >= c.PilePct*span[fmt.Sprintf("p%da", i)] && (pt.B.E-pt.B.S)*100 >= c.PilePct*span[fmt.Sprintf("p%db", i)] {
				pass++
			} else {
				fail++
				if pt.A.C != pt.B.C {
					cross = true
				}
			}
		}
		if pass > 0 && fail > 0 {
			l = append(l, "pile-filter-splits")
		}
		if cross {
			l = append(l, "pile-filter-rejects-cross-location-pair")
		}
	}
	return l
}

func TestPiles(t *testing.T) {
	vlib.Run(t, vlib.Prop[pileCase]{Name: "piles-vs-union-find", Checks: 5000, Thorough: 480000, Gen: gen, Check: check, Classes: classes,
		MinFrac: map[string]float64{"chained-component": 0.15, "duplicate-pair": 0.1, "abutting-features": 0.3, "zero-length-feature": 0.2, "pile-filter-splits": 0.2, "pile-filter-rejects-cross-location-pair": 0.2, "unfiltered-call-after-partly-filtered-call": 0.1}})
}
