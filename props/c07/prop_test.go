// C07 — multi-sequence containers keep row and column views consistent under edits.
package c07

import (
	"fmt"
	"os"
	"strings"
	"testing"

	"github.com/biogo/biogo/alphabet"
	"github.com/biogo/biogo/seq"
	"github.com/biogo/biogo/seq/linear"
	"pgregory.net/rapid"

	sm "verif/internal/seqmodel"
	"verif/internal/vlib"
)

func TestMain(m *testing.M) { vlib.Main(m, "C07"); os.Exit(0) }

type run struct {
	L string `json:"l"`
	Q []int  `json:"q,omitempty"`
}

type op struct {
	Kind   string  `json:"kind"`
	Target int     `json:"target"`
	Runs   []run   `json:"runs,omitempty"` // append-cols: one run per column (letters cycled over the rows); append-each: one run per row (cycled)
	Row    int     `json:"row"`
	Pos    int     `json:"pos"`
	Letter int     `json:"letter"`
	Q      int     `json:"q"`
	New    *sm.Row `json:"new,omitempty"`
	Where  int     `json:"where"`
	Fill   int     `json:"fill"`
	A      int     `json:"a"`
	B      int     `json:"b"`
}

type editCase struct {
	Spec sm.Spec `json:"spec"`
	Ops  []op    `json:"ops"`
}

var alphas = []string{"DNA", "DNAgapped", "Protein", "DNAredundant"}
var kinds = []string{"aseq", "aqseq", "multi", "multiq", "set", "setq"}

func pool(alpha string) string {
	l := sm.Alpha(alpha).Letters()
	return l + "-n"
}

func genRunLetters(t *rapid.T, alpha string, n int) string {
	p := pool(alpha)
	b := make([]byte, n)
	for i := range b {
		b[i] = p[rapid.IntRange(0, len(p)-1).Draw(t, "l")]
	}
	return string(b)
}

func genQ(t *rapid.T, n int) []int {
	q := make([]int, n)
	for i := range q {
		q[i] = rapid.SampledFrom([]int{0, 1, 2, 3, 20, 40, 93}).Draw(t, "q")
	}
	return q
}

func genSpec(t *rapid.T) sm.Spec {
	s := sm.Spec{Kind: rapid.SampledFrom(kinds).Draw(t, "kind"), Alpha: rapid.SampledFrom(alphas).Draw(t, "alpha")}
	nrows := rapid.IntRange(1, 6).Draw(t, "nrows")
	minLen := 0
	if s.Aligned() {
		minLen = 1
	}
	n := rapid.IntRange(minLen, 30).Draw(t, "len")
	uniform := rapid.IntRange(0, 3).Draw(t, "uniform-cols") == 0
	// one case in forty spreads the rows of a row-stored alignment over several hundred positions,
	// so that Flush has to pad by 200 letters and more (long runs are filled by another code path)
	far := !s.Aligned() && rapid.IntRange(0, 39).Draw(t, "far-apart-rows") == 17
	first := ""
	for i := 0; i < nrows; i++ {
		l, off := n, 0
		if !s.Aligned() {
			if rapid.IntRange(0, 2).Draw(t, "ragged") > 0 {
				l = rapid.IntRange(0, 30).Draw(t, "rowlen")
				off = rapid.SampledFrom([]int{0, 0, 1, 2, 5, 9, -3}).Draw(t, "offset")
			}
			if far && i > 0 {
				off = rapid.SampledFrom([]int{199, 200, 201, 257, 300, 511}).Draw(t, "far-offset")
			}
		}
		r := sm.Row{Name: fmt.Sprintf("r%d", i), Offset: off, L: genRunLetters(t, s.Alpha, l), Strand: 1}
		if uniform && s.Aligned() {
			if i == 0 {
				first = r.L
			} else {
				r.L = first
			}
		}
		if s.Quality() {
			r.Q = genQ(t, l)
		}
		if s.Aligned() {
			r.Strand = 0
		}
		s.Rows = append(s.Rows, r)
	}
	return s
}

func gen(t *rapid.T) editCase {
	c := editCase{Spec: genSpec(t)}
	maxOps := 6
	if vlib.Thorough() {
		maxOps = 12
	}
	n := rapid.IntRange(1, maxOps).Draw(t, "nops")
	cloned := false
	var opPool []string
	switch {
	case c.Spec.Aligned():
		opPool = []string{"append-cols", "append-cols", "append-each", "append-each", "delete", "add", "truncate", "clone", "scribble", "set"}
	case c.Spec.IsMulti():
		opPool = []string{"append-cols", "append-each", "append-each", "delete", "add", "flush", "flush", "truncate", "subseq", "clone", "scribble", "set", "set-offset"}
	default:
		opPool = []string{"append-each", "append-each", "scribble", "set", "clone"}
	}
	for i := 0; i < n; i++ {
		o := op{Kind: rapid.SampledFrom(opPool).Draw(t, "op"), Row: rapid.IntRange(0, 7).Draw(t, "row"), Pos: rapid.IntRange(0, 80).Draw(t, "pos"),
			Letter: rapid.IntRange(0, 30).Draw(t, "letter"), Q: rapid.IntRange(0, 93).Draw(t, "q"), Where: rapid.IntRange(1, 3).Draw(t, "where"),
			Fill: rapid.IntRange(0, 3).Draw(t, "fill"), A: rapid.IntRange(0, 40).Draw(t, "a"), B: rapid.IntRange(0, 40).Draw(t, "b")}
		switch o.Kind {
		case "append-cols":
			nc := rapid.IntRange(1, 3).Draw(t, "ncols")
			for k := 0; k < nc; k++ {
				l := rapid.IntRange(1, 6).Draw(t, "colpat")
				o.Runs = append(o.Runs, run{L: genRunLetters(t, c.Spec.Alpha, l), Q: genQ(t, l)})
			}
		case "append-each":
			nr := rapid.IntRange(1, 4).Draw(t, "nruns")
			for k := 0; k < nr; k++ {
				l := rapid.IntRange(0, 6).Draw(t, "runlen")
				o.Runs = append(o.Runs, run{L: genRunLetters(t, c.Spec.Alpha, l), Q: genQ(t, l)})
			}
		case "add":
			l := rapid.IntRange(0, 35).Draw(t, "newlen")
			r := sm.Row{Name: fmt.Sprintf("added%d", i), Offset: rapid.SampledFrom([]int{0, 0, 2, 7, -4}).Draw(t, "newoff"), L: genRunLetters(t, c.Spec.Alpha, l), Strand: 1}
			if c.Spec.Quality() {
				r.Q = genQ(t, l)
			}
			o.New = &r
		case "clone", "subseq":
			if cloned {
				o.Kind = "set"
			}
			cloned = true
		}
		if cloned {
			o.Target = rapid.IntRange(0, 1).Draw(t, "target")
		}
		c.Ops = append(c.Ops, o)
	}
	return c
}

func cyc(s string, i int) byte { return s[i%len(s)] }
func cycq(q []int, i int) int {
	if len(q) == 0 {
		return 0
	}
	return q[i%len(q)]
}

func gapOf(alpha string) byte { return byte(sm.Alpha(alpha).Gap()) }

type state struct {
	obj *sm.Object
	mdl *sm.Model
}

type buffers struct{ all [][]alphabet.QLetter }

func (b *buffers) keep(s []alphabet.QLetter) []alphabet.QLetter {
	b.all = append(b.all, s)
	return s
}

func (b *buffers) scribble() {
	for _, s := range b.all {
		for i := range s {
			s[i] = alphabet.QLetter{L: '!', Q: 1}
		}
	}
}

func check(c editCase) *vlib.Failure {
	st := make([]*state, 2)
	obj, err := sm.Build(c.Spec)
	if err != nil {
		return vlib.Failf("build", "%v", err)
	}
	st[0] = &state{obj, sm.NewModel(c.Spec)}
	bufs := &buffers{}
	quality := c.Spec.Quality()
	gap := gapOf(c.Spec.Alpha)
	if f := verify(c, st[0], "initial"); f != nil {
		return f
	}
	for oi, o := range c.Ops {
		tg := o.Target
		if st[1] == nil {
			tg = 0
		}
		s := st[tg]
		m := s.mdl
		nrows := len(m.Rows)
		ctx := fmt.Sprintf("op %d %s on %s (target %d)", oi, o.Kind, c.Spec.Kind, tg)
		switch o.Kind {
		case "append-cols":
			if c.Spec.IsSet() || nrows == 0 || len(o.Runs) == 0 {
				continue
			}
			var cols [][]alphabet.QLetter
			for _, r := range o.Runs {
				if len(r.L) == 0 {
					continue
				}
				col := make([]alphabet.QLetter, nrows)
				for i := range col {
					col[i] = alphabet.QLetter{L: alphabet.Letter(cyc(r.L, i)), Q: alphabet.Qphred(cycq(r.Q, i))}
				}
				cols = append(cols, bufs.keep(col))
			}
			if e := s.obj.AppendColumns(cols); e != nil {
				return vlib.Failf("append-error", "%s: %v", ctx, e)
			}
			for _, col := range cols {
				for i := range m.Rows {
					m.Rows[i].L += string([]byte{byte(col[i].L)})
					if quality {
						m.Rows[i].Q = append(m.Rows[i].Q, int(col[i].Q))
					}
				}
			}
		case "append-each":
			if nrows == 0 || len(o.Runs) == 0 {
				continue
			}
			runs := make([][]alphabet.QLetter, nrows)
			maxLen := 0
			for i := range runs {
				r := o.Runs[i%len(o.Runs)]
				runs[i] = make([]alphabet.QLetter, len(r.L))
				for k := range runs[i] {
					runs[i][k] = alphabet.QLetter{L: alphabet.Letter(r.L[k]), Q: alphabet.Qphred(cycq(r.Q, k))}
				}
				bufs.keep(runs[i])
				if len(r.L) > maxLen {
					maxLen = len(r.L)
				}
			}
			if e := s.obj.AppendEach(runs); e != nil {
				return vlib.Failf("append-error", "%s: %v", ctx, e)
			}
			for i := range m.Rows {
				for k := 0; k < len(runs[i]); k++ {
					m.Rows[i].L += string([]byte{byte(runs[i][k].L)})
					if quality {
						m.Rows[i].Q = append(m.Rows[i].Q, int(runs[i][k].Q))
					}
				}
				if c.Spec.Aligned() {
					// column-stored alignments pad shorter runs with the gap letter
					for k := len(runs[i]); k < maxLen; k++ {
						m.Rows[i].L += string([]byte{gap})
						if quality {
							m.Rows[i].Q = append(m.Rows[i].Q, 0)
						}
					}
				}
			}
		case "delete":
			if c.Spec.IsSet() || nrows < 2 {
				continue
			}
			i := o.Row % nrows
			s.obj.Delete(i)
			m.Rows = append(m.Rows[:i:i], m.Rows[i+1:]...)
		case "add":
			if c.Spec.IsSet() || o.New == nil || nrows == 0 {
				continue
			}
			nr := *o.New
			if quality && len(nr.Q) != len(nr.L) {
				nr.Q = make([]int, len(nr.L))
			}
			if !quality {
				nr.Q = nil
			}
			if e := s.obj.Add(nr); e != nil {
				return vlib.Failf("add-error", "%s: %v", ctx, e)
			}
			if c.Spec.Aligned() {
				// clipped to the alignment, missing positions filled with the gap letter
				n := len(m.Rows[0].L)
				row := sm.Row{Name: nr.Name, Offset: 0}
				b := make([]byte, n)
				if quality {
					row.Q = make([]int, n)
				}
				for p := 0; p < n; p++ {
					if p >= nr.Offset && p < nr.End() {
						b[p] = nr.L[p-nr.Offset]
						if quality {
							row.Q[p] = nr.Q[p-nr.Offset]
						}
					} else {
						b[p] = gap
					}
				}
				row.L = string(b)
				m.Rows = append(m.Rows, row)
			} else {
				m.Rows = append(m.Rows, nr)
			}
		case "set-offset":
			// Multi.SetOffset moves the whole alignment: every row shifts by the same amount and
			// keeps its letters
			if !c.Spec.IsMulti() || nrows == 0 {
				continue
			}
			to := o.A - 12
			delta := to - s.obj.Multi.Offset
			s.obj.Multi.SetOffset(to)
			for i := range m.Rows {
				m.Rows[i].Offset += delta
			}
		case "flush":
			if !c.Spec.IsMulti() || nrows == 0 {
				continue
			}
			fill := "-nx."[o.Fill%4]
			S, E := m.Start(), m.End()
			s.obj.Flush(o.Where, fill)
			for i := range m.Rows {
				r := &m.Rows[i]
				if o.Where&seq.Start != 0 && r.Offset > S {
					n := r.Offset - S
					r.L = strings.Repeat(string([]byte{fill}), n) + r.L
					if quality {
						r.Q = append(make([]int, n), r.Q...)
					}
					r.Offset = S
				}
				if o.Where&seq.End != 0 && r.End() < E {
					n := E - r.End()
					r.L += strings.Repeat(string([]byte{fill}), n)
					if quality {
						r.Q = append(r.Q, make([]int, n)...)
					}
				}
			}
		case "truncate", "subseq":
			if c.Spec.IsSet() || nrows == 0 {
				continue
			}
			var lo, hi int
			if c.Spec.Aligned() {
				if o.Kind == "subseq" {
					continue
				}
				n := len(m.Rows[0].L)
				if n < 1 {
					continue
				}
				lo, hi = 0, 1+o.B%n // keep offset 0 and at least one column
			} else {
				// the range every row covers
				cs, ce := m.Rows[0].Offset, m.Rows[0].End()
				for _, r := range m.Rows {
					if r.Offset > cs {
						cs = r.Offset
					}
					if r.End() < ce {
						ce = r.End()
					}
				}
				if cs > ce {
					continue
				}
				lo = cs + o.A%(ce-cs+1)
				hi = lo + o.B%(ce-lo+1)
			}
			if o.Kind == "truncate" {
				if e := s.obj.Truncate(lo, hi); e != nil {
					return vlib.Failf("truncate-error", "%s: Truncate(%d,%d) over a range every row covers: %v", ctx, lo, hi, e)
				}
				truncateModel(m, lo, hi)
			} else {
				if st[1] != nil || tg != 0 {
					continue
				}
				sub, e := safeSubseq(s.obj, lo, hi)
				if e != nil {
					return vlib.Failf("subseq-error", "%s: Subseq(%d,%d) over a range every row covers: %v", ctx, lo, hi, e)
				}
				nm := m.Clone()
				truncateModel(nm, lo, hi)
				st[1] = &state{sub, nm}
			}
		case "clone":
			if st[1] != nil || tg != 0 {
				continue
			}
			st[1] = &state{s.obj.Clone(), m.Clone()}
		case "set":
			if nrows == 0 {
				continue
			}
			i := o.Row % nrows
			lo, hi := s.obj.RowBounds(i)
			if hi <= lo {
				continue
			}
			p := pool(c.Spec.Alpha)
			pos := lo + o.Pos%(hi-lo)
			ql := alphabet.QLetter{L: alphabet.Letter(p[o.Letter%len(p)]), Q: alphabet.Qphred(o.Q)}
			s.obj.Row(i).Set(pos, ql)
			r := &m.Rows[i]
			idx := pos - r.Offset
			if c.Spec.Aligned() {
				idx = pos
			}
			b := []byte(r.L)
			b[idx] = byte(ql.L)
			r.L = string(b)
			if quality {
				r.Q[idx] = int(ql.Q)
			}
		case "scribble":
			bufs.scribble()
		}
		for k, x := range st {
			if x == nil {
				continue
			}
			if f := verify(c, x, fmt.Sprintf("after %s, copy %d", ctx, k)); f != nil {
				if k != tg && (o.Kind != "clone" && o.Kind != "subseq") {
					f.Kind = "copy-not-independent/" + f.Kind
				}
				if o.Kind == "scribble" {
					f.Kind = "retains-caller-buffer/" + f.Kind
				}
				return f
			}
		}
	}
	return nil
}

func safeSubseq(o *sm.Object, lo, hi int) (sub *sm.Object, err error) {
	defer func() {
		if r := recover(); r != nil {
			err = fmt.Errorf("panic: %v", r)
		}
	}()
	return o.Subseq(lo, hi)
}

func truncateModel(m *sm.Model, lo, hi int) {
	for i := range m.Rows {
		r := &m.Rows[i]
		a, b := lo-r.Offset, hi-r.Offset
		if m.Aligned() {
			a, b = lo, hi
		}
		r.L = r.L[a:b]
		if r.Q != nil {
			r.Q = append([]int(nil), r.Q[a:b]...)
		}
		if !m.Aligned() {
			r.Offset = lo
		}
	}
}

// verify compares every view of the container with the model.
func verify(c editCase, s *state, ctx string) *vlib.Failure {
	m := s.mdl
	sn := s.obj.Observe()
	opts := sm.Opts{Offsets: !m.Aligned(), Names: true, Quals: true}
	if e := sm.CompareRows(sn, m, opts); e != nil {
		k := e.Error()
		if i := strings.Index(k, ":"); i > 0 {
			k = k[:i]
		}
		return &vlib.Failure{Kind: "row-view-" + k, Msg: ctx + ": " + e.Error()}
	}
	al := s.obj.Aligned()
	if al == nil || len(m.Rows) == 0 {
		return nil
	}
	// extent
	wantStart, wantEnd := m.Start(), m.End()
	if m.Aligned() {
		wantStart, wantEnd = 0, len(m.Rows[0].L)
	}
	if al.Rows() != len(m.Rows) || al.Start() != wantStart || al.End() != wantEnd {
		return vlib.Failf("extent", "%s: Rows/Start/End = %d/%d/%d want %d/%d/%d", ctx, al.Rows(), al.Start(), al.End(), len(m.Rows), wantStart, wantEnd)
	}
	if l, ok := al.(interface{ Len() int }); ok && l.Len() != wantEnd-wantStart {
		return vlib.Failf("extent", "%s: Len = %d want %d", ctx, l.Len(), wantEnd-wantStart)
	}
	gap := gapOf(c.Spec.Alpha)
	quality := c.Spec.Quality()
	alpha := sm.Alpha(c.Spec.Alpha)
	var cons *linear.QSeq
	if cs, ok := al.(interface{ Consensus(bool) *linear.QSeq }); ok && (c.Spec.Kind == "aseq" || c.Spec.Kind == "multi" || c.Spec.Kind == "multiq") {
		cons = cs.Consensus(false)
	}
	var (
		heldQL              []alphabet.QLetter
		heldL               []alphabet.Letter
		heldQLWas, heldLWas string
		heldPos             int
		heldFill            bool
	)
	for pos := wantStart; pos < wantEnd; pos++ {
		for _, fill := range []bool{true, false} {
			var wantL []byte
			var wantQ []int
			uniformValid := true
			var first byte
			allHigh := true
			for _, r := range m.Rows {
				off := r.Offset
				if m.Aligned() {
					off = 0
				}
				if pos >= off && pos < off+len(r.L) {
					l := r.L[pos-off]
					wantL = append(wantL, l)
					q := int(seq.DefaultQphred)
					if quality {
						q = r.Q[pos-off]
					}
					wantQ = append(wantQ, q)
					if q < 2 {
						allHigh = false
					}
					lc := l | 0x20
					if first == 0 {
						first = lc
					}
					if lc != first || !alpha.IsValid(alphabet.Letter(l)) {
						uniformValid = false
					}
				} else if fill {
					wantL = append(wantL, gap)
					wantQ = append(wantQ, 0)
				}
			}
			col := al.Column(pos, fill)
			cql := al.ColumnQL(pos, fill)
			// a column handed out earlier stays what it was when the next one is asked for
			if heldQL != nil && qlString(heldQL) != heldQLWas {
				return vlib.Failf("column-view-held", "%s: the ColumnQL result of position %d (fill=%v) read %q when it was returned and reads %q after ColumnQL(%d, %v)", ctx, heldPos, heldFill, heldQLWas, qlString(heldQL), pos, fill)
			}
			if heldL != nil && alphabet.Letters(heldL).String() != heldLWas {
				return vlib.Failf("column-view-held", "%s: the Column result of position %d (fill=%v) read %q when it was returned and reads %q after Column(%d, %v)", ctx, heldPos, heldFill, heldLWas, alphabet.Letters(heldL).String(), pos, fill)
			}
			heldQL, heldQLWas, heldL, heldLWas, heldPos, heldFill = cql, qlString(cql), col, alphabet.Letters(col).String(), pos, fill
			if len(col) != len(wantL) || len(cql) != len(wantL) {
				return vlib.Failf("column-view-length", "%s: position %d fill=%v: Column has %d entries, ColumnQL %d, expected %d (%q)", ctx, pos, fill, len(col), len(cql), len(wantL), wantL)
			}
			for i := range wantL {
				if byte(cql[i].L) != wantL[i] {
					return vlib.Failf("column-view", "%s: position %d fill=%v: ColumnQL entry %d is %q, the row view has %q (column %q want %q)", ctx, pos, fill, i, cql[i].L, wantL[i], qlString(cql), wantL)
				}
				if (quality || !m.Aligned()) && int(cql[i].Q) != wantQ[i] {
					return vlib.Failf("column-view-quality", "%s: position %d fill=%v: ColumnQL entry %d has Q %d want %d", ctx, pos, fill, i, cql[i].Q, wantQ[i])
				}
				// alignment.QSeq.Column is a quality-filtered view: compared where the score reaches the threshold
				if c.Spec.Kind == "aqseq" && wantQ[i] < 2 {
					continue
				}
				if byte(col[i]) != wantL[i] {
					return vlib.Failf("column-view", "%s: position %d fill=%v: Column entry %d is %q, the row view has %q (column %q want %q)", ctx, pos, fill, i, col[i], wantL[i], alphabet.Letters(col).String(), wantL)
				}
			}
			if !fill && len(wantL) > 0 && uniformValid && (c.Spec.Kind != "aqseq" || allHigh) {
				got := seq.DefaultConsensus(al, alpha, pos, false)
				if byte(got.L)|0x20 != first {
					return vlib.Failf("consensus", "%s: position %d: every row holds %q but the count-based consensus is %q", ctx, pos, first, got.L)
				}
				// the container's own Consensus method (built with the count-based function for
				// the types without qualities) says the same at that position
				if cons != nil {
					if i := pos - wantStart; i < 0 || i >= len(cons.Seq) {
						return vlib.Failf("consensus", "%s: Consensus() has %d letters for a span of %d", ctx, len(cons.Seq), wantEnd-wantStart)
					} else if byte(cons.Seq[i].L)|0x20 != first {
						return vlib.Failf("consensus", "%s: position %d: every row holds %q but Consensus() has %q there", ctx, pos, first, cons.Seq[i].L)
					}
				}
			}
		}
	}
	return nil
}

func qlString(q []alphabet.QLetter) string {
	b := make([]byte, len(q))
	for i := range q {
		b[i] = byte(q[i].L)
	}
	return string(b)
}

func classes(c editCase) []string {
	l := []string{"kind-" + c.Spec.Kind}
	kindsSeen := map[string]bool{}
	scribbleAfterAppend, appended := false, false
	ragged := false
	for i, r := range c.Spec.Rows {
		if i > 0 && (r.Offset != c.Spec.Rows[0].Offset || len(r.L) != len(c.Spec.Rows[0].L)) {
			ragged = true
		}
		if r.Offset >= 199 {
			l = append(l, "rows-200-or-more-apart")
		}
	}
	for _, o := range c.Ops {
		kindsSeen[o.Kind] = true
		if o.Kind == "append-cols" || o.Kind == "append-each" {
			appended = true
		}
		if o.Kind == "scribble" && appended {
			scribbleAfterAppend = true
		}
	}
	for k := range kindsSeen {
		l = append(l, "op-"+k)
	}
	if scribbleAfterAppend {
		l = append(l, "scribble-after-append")
	}
	if ragged {
		l = append(l, "ragged-rows")
	}
	nt := len(kindsSeen) >= 2 || scribbleAfterAppend || (kindsSeen["flush"] && ragged) || kindsSeen["subseq"]
	if nt {
		l = append(l, vlib.NT)
	}
	return l
}

func TestEdits(t *testing.T) {
	vlib.Run(t, vlib.Prop[editCase]{Name: "edit-histories", Checks: 4000, Thorough: 240000, Gen: gen, Check: check, Classes: classes,
		MinFrac: map[string]float64{"scribble-after-append": 0.05, "op-flush": 0.05, "op-subseq": 0.02, "op-delete": 0.1, "op-add": 0.1, "kind-aqseq": 0.08, "kind-multi": 0.08}})
}
