// C04 — parsed records do not depend on line layout or terminators.
//
// Metamorphic: the same records are laid out by the library writer (baseline)
// and by an independent renderer under a generated layout (wrap width, blank
// lines, trailing blanks, CRLF, missing final terminator); both must parse to
// the generating records.
package c04

import (
	"fmt"
	"os"
	"strings"
	"testing"

	"pgregory.net/rapid"

	"verif/internal/iogen"
	"verif/internal/vlib"
)

func TestMain(m *testing.M) { vlib.Main(m, "C04"); os.Exit(0) }

func fail(prefix string, err error) *vlib.Failure {
	if err == nil {
		return nil
	}
	k, m := iogen.ErrKind(err)
	return &vlib.Failure{Kind: prefix + k, Msg: m}
}

type seqCase struct {
	File   iogen.SeqFile `json:"file"`
	Layout iogen.Layout  `json:"layout"`
	// LastLine4096: force the last physical line to be a multiple of 4096 bytes
	// (the bufio buffer) by choosing the last record's length and wrap.
	LastLine4096 int `json:"last_line_4096,omitempty"`
}

func (c seqCase) prepared() (iogen.SeqFile, iogen.Layout) {
	f, l := c.File, c.Layout
	if c.LastLine4096 > 0 && len(f.Recs) > 0 {
		recs := append([]iogen.SeqRec(nil), f.Recs...)
		last := &recs[len(recs)-1]
		last.Len = 4096 * c.LastLine4096
		if last.Pat == "" {
			last.Pat = "a"
		}
		if len(last.QPat) == 0 && f.WriteQ {
			last.QPat = []int{30}
		}
		f.Recs = recs
		if f.Format == "fasta" {
			w := make([]int, len(recs))
			for i := range w {
				w[i] = 60
				if len(l.Wrap) > 0 {
					w[i] = l.Wrap[i%len(l.Wrap)]
				}
			}
			w[len(recs)-1] = 4096 * c.LastLine4096
			l.Wrap = w
		}
		l.Trail = nil
		if len(l.Blank) > 0 {
			l.Blank = nil
		}
	}
	return f, l
}

func checkSeq(c seqCase) *vlib.Failure {
	f, l := c.prepared()
	base, err := f.WriteLib()
	if err != nil {
		return fail("baseline-", err)
	}
	got, err := f.ReadLib(base)
	if err != nil {
		return fail("baseline-", err)
	}
	if err := f.Compare(got); err != nil {
		return fail("baseline-", err)
	}
	data := f.Render(l)
	got2, err := f.ReadLib(data)
	if err != nil {
		return fail("layout-", err)
	}
	if err := f.Compare(got2); err != nil {
		return fail("layout-", err)
	}
	return nil
}

func seqClasses(c seqCase) []string {
	f, l := c.prepared()
	out := iogen.RouteClasses(f.Route)
	nt := false
	if len(f.Recs) == 0 {
		return []string{"no-records"}
	}
	if l.CRLF {
		out = append(out, "crlf")
		nt = true
	}
	if l.NoFinalEOL {
		out = append(out, "no-final-eol")
		nt = true
	}
	if l.Lead > 0 {
		out = append(out, "blank-lines-before-the-first-header")
	}
	if len(l.Blank) > 0 {
		out = append(out, "blank-lines")
		nt = true
	}
	if len(l.Trail) > 0 {
		out = append(out, "trailing-blanks")
		nt = true
	}
	if c.LastLine4096 > 0 {
		out = append(out, "last-line-multiple-of-4096")
		if l.NoFinalEOL {
			out = append(out, "last-line-multiple-of-4096+no-final-eol")
		}
	}
	if f.Format == "fasta" {
		for i, r := range f.Recs {
			w := f.Width
			if len(l.Wrap) > 0 && l.Wrap[i%len(l.Wrap)] > 0 {
				w = l.Wrap[i%len(l.Wrap)]
			}
			if w != f.Width {
				nt = true
				out = append(out, "rewrapped")
			}
			if r.Len > 4096 && w > 4096 {
				out = append(out, "physical-line>4096")
			}
			if r.Len >= 65536 && w >= 65536 {
				out = append(out, "physical-line>=65536")
			}
			if r.Len > 4096 {
				out = append(out, "seq>4096")
			}
		}
	} else {
		for _, r := range f.Recs {
			if r.Len > 4096 {
				out = append(out, "physical-line>4096")
			}
			if r.Len >= 65536 {
				out = append(out, "physical-line>=65536")
			}
		}
	}
	out = dedup(out)
	if nt {
		out = append(out, vlib.NT)
	}
	return out
}

func dedup(a []string) []string {
	m := map[string]bool{}
	var o []string
	for _, s := range a {
		if !m[s] {
			m[s] = true
			o = append(o, s)
		}
	}
	return o
}

func genSeqCase(format string) func(t *rapid.T) seqCase {
	return func(t *rapid.T) seqCase {
		c := seqCase{File: iogen.GenSeqFile(t, format, 5, true), Layout: iogen.GenLayout(t, format, true)}
		if rapid.IntRange(0, 9).Draw(t, "force-4096") == 0 {
			c.LastLine4096 = rapid.IntRange(1, 2).Draw(t, "k4096")
		}
		return c
	}
}

func TestFastaLayout(t *testing.T) {
	vlib.Run(t, vlib.Prop[seqCase]{Name: "fasta-layout", Checks: 2500, Thorough: 200000, Gen: genSeqCase("fasta"), Check: checkSeq, Classes: seqClasses,
		MinFrac: map[string]float64{"crlf": 0.25, "no-final-eol": 0.25, "blank-lines": 0.2, "rewrapped": 0.3, "physical-line>4096": 0.02, "physical-line>=65536": 0.0005, "last-line-multiple-of-4096+no-final-eol": 0.02}})
}

func TestFastqLayout(t *testing.T) {
	vlib.Run(t, vlib.Prop[seqCase]{Name: "fastq-layout", Checks: 2500, Thorough: 200000, Gen: genSeqCase("fastq"), Check: checkSeq, Classes: seqClasses,
		MinFrac: map[string]float64{"crlf": 0.25, "no-final-eol": 0.25, "blank-lines": 0.2, "physical-line>4096": 0.02, "last-line-multiple-of-4096+no-final-eol": 0.02}})
}

// ---- BED / GFF: terminator style and final terminator ------------------------

type featCase struct {
	Bed        *iogen.BedFile `json:"bed,omitempty"`
	Gff        *iogen.GffFile `json:"gff,omitempty"`
	CRLF       bool           `json:"crlf"`
	NoFinalEOL bool           `json:"no_final_eol"`
	// LongLine > 0 (GFF): the source column of the first feature is padded until its line has this
	// many bytes (about 64 KiB: a reader with a fixed line limit sees the terminator make the difference)
	LongLine int `json:"long_line,omitempty"`
}

func (c featCase) padded() *iogen.GffFile {
	if c.Gff == nil || c.LongLine == 0 {
		return c.Gff
	}
	g := *c.Gff
	g.Items = append([]iogen.GffItem(nil), c.Gff.Items...)
	for i, it := range g.Items {
		if it.Kind != "feature" {
			continue
		}
		one := iogen.GffFile{Width: g.Width, Items: []iogen.GffItem{it}}
		n := len(strings.TrimSuffix(string(one.Text("\n", true)), "\n"))
		if pad := c.LongLine - n; pad > 0 {
			it.Source += strings.Repeat("x", pad)
			g.Items[i] = it
		}
		break
	}
	return &g
}

func checkFeat(c featCase) *vlib.Failure {
	c.Gff = c.padded()
	eol := "\n"
	if c.CRLF {
		eol = "\r\n"
	}
	if c.Bed != nil {
		base, err := c.Bed.WriteLib()
		if err != nil {
			return fail("baseline-", err)
		}
		if err := c.Bed.ReadCompare(base); err != nil {
			return fail("baseline-", err)
		}
		return fail("layout-", c.Bed.ReadCompare(c.Bed.Text(eol, !c.NoFinalEOL)))
	}
	base, err := c.Gff.WriteLib()
	if err != nil {
		return fail("baseline-", err)
	}
	if err := c.Gff.ReadCompare(base); err != nil {
		return fail("baseline-", err)
	}
	return fail("layout-", c.Gff.ReadCompare(c.Gff.Text(eol, !c.NoFinalEOL)))
}

func featClasses(c featCase) []string {
	var l []string
	n := 0
	last := ""
	if c.Bed != nil {
		l = append(l, "bed")
		l = append(l, iogen.RouteClasses(c.Bed.Route)...)
		n = len(c.Bed.Recs)
		last = "record"
	} else {
		l = append(l, "gff")
		for _, it := range c.Gff.Items {
			if it.Kind == "feature" || it.Kind == "region" || it.Kind == "seq" {
				n++
			}
		}
		if k := len(c.Gff.Items); k > 0 {
			last = c.Gff.Items[k-1].Kind
		}
	}
	if n == 0 {
		return append(l, "no-records")
	}
	if c.LongLine >= 65533 {
		l = append(l, "gff-line-of-about-64KiB")
	}
	if c.CRLF {
		l = append(l, "crlf")
	}
	if c.NoFinalEOL {
		l = append(l, "no-final-eol", "no-final-eol/last="+last)
	}
	if c.CRLF || c.NoFinalEOL {
		l = append(l, vlib.NT)
	}
	return l
}

func TestFeatureLayout(t *testing.T) {
	vlib.Run(t, vlib.Prop[featCase]{Name: "bed-gff-layout", Checks: 4000, Thorough: 300000,
		Gen: func(t *rapid.T) featCase {
			c := featCase{CRLF: rapid.Bool().Draw(t, "crlf"), NoFinalEOL: rapid.Bool().Draw(t, "no-final-eol")}
			if rapid.Bool().Draw(t, "bed") {
				b := iogen.GenBedFile(t, 4)
				c.Bed = &b
			} else {
				g := iogen.GenGffFile(t, 5)
				c.Gff = &g
				if rapid.IntRange(0, 49).Draw(t, "long-line") == 31 {
					c.LongLine = rapid.SampledFrom([]int{65533, 65534, 65535, 65536, 65537, 4095, 4096, 131072}).Draw(t, "long-line-bytes")
				}
			}
			return c
		},
		Check: checkFeat, Classes: featClasses,
		MinFrac: map[string]float64{"crlf": 0.25, "no-final-eol": 0.25, "no-final-eol/last=seq": 0.01, "no-final-eol/last=feature": 0.05}})
}

var _ = fmt.Sprint
