module verif

go 1.23

toolchain go1.23.5

require (
	github.com/biogo/biogo v0.0.0
	pgregory.net/rapid v1.3.0
)

replace github.com/biogo/biogo => /repo
