module verif

go 1.23

toolchain go1.23.5

require (
	github.com/biogo/biogo v0.0.0
	pgregory.net/rapid v1.3.0
)

require (
	github.com/biogo/graph v0.0.0-20150317020928-057c1989faed // indirect
	github.com/biogo/store v0.0.0-20200104231603-2c6ad937eb83 // indirect
)

replace github.com/biogo/biogo => /repo
