#!/usr/bin/env python3
"""Confirm a seeded change produced by an independent sub-agent and run our checks against it.

usage: seedcheck.py <seedout-dir e.g. /tmp/seedout/C10/m1> [--tier quick|thorough] [--keep-as NAME] [--checks C10,C14]

1. in a scratch worktree (outside /repo and /verif): apply patch, build, run the full suite (must pass),
   run the demo (must fail), revert, run the demo again (must pass);
2. apply the patch to /repo, run ./vcheck <ID> <tier> (expect exit 1), revert /repo;
3. store patch.diff, the demo and meta.json (with what was run and observed) under /verif/seeded/<NAME>/.
"""
import json, os, shutil, subprocess, sys, time
ENV = dict(os.environ, GOFLAGS="-mod=mod", GOPROXY="off", GOSUMDB="off", GOTOOLCHAIN="local")
REPO, VERIF, SCRATCH = "/repo", "/verif", "/tmp/wt/_verify"

def sh(cmd, cwd, timeout=1800):
    r = subprocess.run(cmd, cwd=cwd, env=ENV, shell=isinstance(cmd, str), capture_output=True, text=True, timeout=timeout)
    return r.returncode, r.stdout + r.stderr

def main():
    d = os.path.abspath(sys.argv[1])
    tier, keep, checks = "quick", None, None
    a = sys.argv[2:]
    while a:
        if a[0] == "--tier": tier = a[1]; a = a[2:]
        elif a[0] == "--keep-as": keep = a[1]; a = a[2:]
        elif a[0] == "--checks": checks = a[1].split(","); a = a[2:]
        else: a = a[1:]
    meta = json.load(open(os.path.join(d, "meta.json")))
    pid = meta["property"]
    checks = checks or [pid]
    patch = os.path.join(d, "patch.diff")
    demo = os.path.join(d, "demo_test.go")
    name = keep or "%s-%s" % (pid, os.path.basename(d))
    out = {"seed_dir": d, "name": name}
    if subprocess.run(["git", "-C", REPO, "status", "--porcelain"], capture_output=True, text=True).stdout.strip():
        print("repo not clean"); sys.exit(3)
    # scratch worktree
    if not os.path.isdir(SCRATCH):
        rc, o = sh(["git", "worktree", "add", "-q", "--detach", SCRATCH, "HEAD"], REPO)
        if rc: print(o); sys.exit(3)
    sh("git checkout -q --detach $(git -C /repo rev-parse HEAD) && git checkout -- . && git clean -fdq", SCRATCH)
    rc, o = sh(["git", "apply", patch], SCRATCH)
    if rc: print("patch does not apply:", o); sys.exit(3)
    rc, o = sh("go build ./...", SCRATCH)
    out["builds"] = rc == 0
    rc, o = sh("go test -vet=off -count=1 ./...", SCRATCH)
    out["suite_passes_with_change"] = rc == 0
    if rc: out["suite_output"] = o[-1500:]
    pkgdir = os.path.join(SCRATCH, meta["demo_pkg_dir"])
    shutil.copy(demo, os.path.join(pkgdir, "zz_seeded_demo_test.go"))
    demo_cmd = meta["demo_cmd"]
    if demo_cmd.startswith("cd "):
        demo_cmd = demo_cmd.split("&&", 1)[1].strip()
    rc, o = sh(demo_cmd, SCRATCH)
    out["demo_fails_with_change"] = rc != 0 and "no test files" not in o and "[build failed]" not in o
    out["demo_output_with_change"] = o[-600:]
    sh("git checkout -- .", SCRATCH)
    rc, o = sh(demo_cmd, SCRATCH)
    out["demo_passes_without_change"] = rc == 0 and "no tests to run" not in o
    if rc: out["demo_output_without_change"] = o[-600:]
    sh("git clean -fdq", SCRATCH)
    confirmed = out["builds"] and out["suite_passes_with_change"] and out["demo_fails_with_change"] and out["demo_passes_without_change"]
    out["confirmed"] = confirmed
    # our checks
    out["checks"] = {}
    if confirmed:
        rc, o = sh(["git", "apply", patch], REPO)
        try:
            for c in checks:
                t0 = time.time()
                r = subprocess.run(["./vcheck", c, tier], cwd=VERIF, capture_output=True, text=True)
                lines = [l for l in r.stdout.splitlines() if l.strip()]
                out["checks"][c] = {"tier": tier, "exit": r.returncode, "caught": r.returncode == 1,
                                    "failing": [l.strip()[:300] for l in lines if "failing sub-property" in l][:4], "wall_s": round(time.time() - t0, 1)}
        finally:
            sh("git checkout -- .", REPO)
    print(json.dumps(out, indent=1))
    if confirmed:
        dst = os.path.join(VERIF, "seeded", name)
        os.makedirs(dst, exist_ok=True)
        shutil.copy(patch, os.path.join(dst, "patch.diff"))
        shutil.copy(demo, os.path.join(dst, "demo_test.go"))
        m = {"property": pid, "title": meta.get("title"), "what_it_breaks": meta.get("what_it_breaks"), "needs_to_manifest": meta.get("needs_to_manifest"),
             "files_changed": meta.get("files_changed"), "demo_pkg_dir": meta["demo_pkg_dir"], "demo_cmd": demo_cmd,
             "origin": "written by an independent sub-agent that saw only the property text and a scratch worktree",
             "base_commit": subprocess.run(["git", "-C", REPO, "rev-parse", "--short", "HEAD"], capture_output=True, text=True).stdout.strip(),
             "confirmed_by_me": {"ran": ["git apply patch.diff (scratch worktree)", "go build ./...", "go test -vet=off -count=1 ./...", demo_cmd + " (with and without the change)"],
                                 "suite_passes_with_change": True, "demo_fails_with_change": True, "demo_passes_without_change": True},
             "our_checks": out["checks"]}
        json.dump(m, open(os.path.join(dst, "meta.json"), "w"), indent=1)

main()
