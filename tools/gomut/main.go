// Command gomut enumerates and applies small syntactic mutations of one Go
// source file (development aid for tools/mutate.py; not part of any check).
//
//	gomut -file f.go -list            prints one JSON object per mutation site
//	gomut -file f.go -apply N -out g  writes the file with mutation N applied
//
// Operators: relational boundary (< <=, > >=), equality (== !=), arithmetic
// (+ -), logical (&& ||), integer literal +1 / -1, negated if-condition,
// deleted statement (expression statements, ++/--, plain assignments), zeroed
// return of a boolean constant (true/false swapped).
package main

import (
	"encoding/json"
	"flag"
	"fmt"
	"go/ast"
	"go/parser"
	"go/token"
	"os"
	"strconv"
)

type site struct {
	ID    int    `json:"id"`
	Line  int    `json:"line"`
	Kind  string `json:"kind"`
	Func  string `json:"func"`
	Orig  string `json:"orig"`
	Repl  string `json:"repl"`
	start int
	end   int
}

func main() {
	file := flag.String("file", "", "source file")
	list := flag.Bool("list", false, "list mutation sites")
	apply := flag.Int("apply", -1, "apply mutation N")
	out := flag.String("out", "", "output file for -apply")
	flag.Parse()
	src, err := os.ReadFile(*file)
	if err != nil {
		fmt.Fprintln(os.Stderr, err)
		os.Exit(2)
	}
	fset := token.NewFileSet()
	f, err := parser.ParseFile(fset, *file, src, parser.ParseComments)
	if err != nil {
		fmt.Fprintln(os.Stderr, err)
		os.Exit(2)
	}
	var sites []site
	add := func(n ast.Node, start, end token.Pos, kind, fn, repl string) {
		s, e := fset.Position(start).Offset, fset.Position(end).Offset
		sites = append(sites, site{ID: len(sites), Line: fset.PositionFor(start, false).Line, Kind: kind, Func: fn, Orig: string(src[s:e]), Repl: repl, start: s, end: e})
	}
	swap := map[token.Token]string{token.LSS: "<=", token.LEQ: "<", token.GTR: ">=", token.GEQ: ">", token.EQL: "!=", token.NEQ: "==",
		token.ADD: "-", token.SUB: "+", token.LAND: "||", token.LOR: "&&"}
	for _, d := range f.Decls {
		fd, ok := d.(*ast.FuncDecl)
		if !ok || fd.Body == nil {
			continue
		}
		name := fd.Name.Name
		switch name {
		case "String", "Format", "Error", "GoString", "formatDescLineTo":
			continue
		}
		ast.Inspect(fd.Body, func(n ast.Node) bool {
			switch x := n.(type) {
			case *ast.BinaryExpr:
				if r, ok := swap[x.Op]; ok {
					add(x, x.OpPos, x.OpPos+token.Pos(len(x.Op.String())), "binop", name, r)
				}
			case *ast.BasicLit:
				if x.Kind == token.INT {
					if v, err := strconv.ParseInt(x.Value, 0, 64); err == nil && v >= 0 && v <= 64 {
						add(x, x.Pos(), x.End(), "int+1", name, strconv.FormatInt(v+1, 10))
						if v > 0 {
							add(x, x.Pos(), x.End(), "int-1", name, strconv.FormatInt(v-1, 10))
						}
					}
				}
			case *ast.IfStmt:
				if x.Cond != nil {
					s, e := fset.Position(x.Cond.Pos()).Offset, fset.Position(x.Cond.End()).Offset
					add(x, x.Cond.Pos(), x.Cond.End(), "negate-if", name, "!("+string(src[s:e])+")")
				}
			case *ast.BlockStmt:
				for _, st := range x.List {
					switch s := st.(type) {
					case *ast.ExprStmt:
						add(s, s.Pos(), s.End(), "delete-stmt", name, "")
					case *ast.IncDecStmt:
						add(s, s.Pos(), s.End(), "delete-stmt", name, "")
					case *ast.AssignStmt:
						if s.Tok != token.DEFINE {
							add(s, s.Pos(), s.End(), "delete-stmt", name, "")
						}
					}
				}
			case *ast.Ident:
				if x.Name == "true" || x.Name == "false" {
					r := "true"
					if x.Name == "true" {
						r = "false"
					}
					add(x, x.Pos(), x.End(), "bool", name, r)
				}
			}
			return true
		})
	}
	if *list {
		enc := json.NewEncoder(os.Stdout)
		for _, s := range sites {
			enc.Encode(s)
		}
		return
	}
	if *apply < 0 || *apply >= len(sites) {
		fmt.Fprintln(os.Stderr, "no such mutation")
		os.Exit(2)
	}
	s := sites[*apply]
	outb := append(append(append([]byte{}, src[:s.start]...), []byte(s.Repl)...), src[s.end:]...)
	if err := os.WriteFile(*out, outb, 0o644); err != nil {
		fmt.Fprintln(os.Stderr, err)
		os.Exit(2)
	}
}
