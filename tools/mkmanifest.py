#!/usr/bin/env python3
"""Regenerates /verif/MANIFEST.json from checks.json (single source of truth for per-check metadata)."""
import json, os
ROOT = os.path.dirname(os.path.dirname(os.path.abspath(__file__)))
cfg = json.load(open(os.path.join(ROOT, "checks.json")))
props = [json.loads(l) for l in open(os.path.join(ROOT, "properties.jsonl")) if l.strip()]
hooks_commits = []
hp = os.path.join(ROOT, "hooks_commits.txt")
if os.path.exists(hp):
    hooks_commits = [l.split()[0] for l in open(hp) if l.strip() and not l.startswith("#")]
checks, na = [], []
for p in props:
    pid = p["id"]
    c = cfg.get(pid)
    if not c or c.get("unclaimed"):
        na.append({"property_id": pid, "reason": (c or {}).get("unclaimed", "not claimed yet: the generated-input check for this property is still being built (see DESIGN.md section 4)")})
        continue
    checks.append({
        "property_id": pid,
        "quick_cmd": "./vcheck %s quick" % pid,
        "thorough_cmd": "./vcheck %s thorough" % pid,
        "evidence_file": "/verif/evidence/%s.json" % pid,
        "replay_cmd_template": "./vcheck %s --replay {path}" % pid,
        "engine": "vcheck",
        "level_claimed": {"category": c["level"], "text": c["level_text"], "design_ref": "DESIGN.md section 4, %s" % pid},
        "level_note": c["level_note"],
        "technique": c["technique"],
    })
m = {
    "version": 1,
    "setup_cmd": "./vcheck setup",
    "hooks": {
        "guard": "verif",
        "enable": "go test -tags verif (the driver always builds the property packages with -tags verif; /repo is compiled from its working tree through the replace directive in /verif/go.mod)",
        "baseline_off_cmd": "cd /repo && go test -vet=off -count=1 -timeout 25m ./...",
        "source_commits": hooks_commits,
        "add_only": True,
    },
    "engines": [{"name": "vcheck", "path": "/verif/vcheck", "serves_properties": [c["property_id"] for c in checks],
                 "kind_free_text": "python driver: builds props/<id> (Go test package, pgregory.net/rapid v1.3.0 + bounded enumerations) against /repo's working tree, runs seeded shards in parallel, merges their stats into evidence/<id>.json, applies KNOWN-FINDINGS.txt"}],
    "checks": checks,
    "not_applicable": na,
    "notes": "Technique family: property-based testing and fuzzing. Every check = generator -> real biogo code -> explicit oracle (reference model, round trip, metamorphic relation, validity predicate, history invariant). VERIF_SEED pins every rapid draw (0 is remapped to 1). exit 2 = infrastructure/inconclusive, never a violation.",
}
json.dump(m, open(os.path.join(ROOT, "MANIFEST.json"), "w"), indent=1)
print("claimed:", len(checks), "not claimed:", len(na))
