#!/usr/bin/env python3
"""Refresh the third column of the table in DESIGN.md section 8.1 (sub-properties and their quick case counts)
from evidence/<id>.json (quick tier). The notes column is left as it is."""
import json, re, os
V = "/verif"
s = open(os.path.join(V, "DESIGN.md")).read()
def fmt(n):
    return "{:,}".format(n).replace(",", " ")
for i in range(1, 21):
    pid = "C%02d" % i
    ev = json.load(open(os.path.join(V, "evidence", pid + ".json")))
    if ev.get("tier") != "quick":
        print(pid, "evidence is not from the quick tier; skipped"); continue
    subs = ev["coverage"]["sub_properties"]
    exh = set(ev["coverage"].get("exhaustive_sub_properties", []))
    parts = []
    for name, d in subs.items():
        parts.append("%s %s%s" % (name, fmt(d["evaluations"]), " (complete)" if name in exh else ""))
    m = re.search(r"^\| %s \| props/c%02d \| ([^|]*) \|" % (pid, i), s, re.M)
    if not m:
        print(pid, "row not found"); continue
    s = s[:m.start(1)] + ", ".join(parts) + s[m.end(1):]
open(os.path.join(V, "DESIGN.md"), "w").write(s)
print("8.1 refreshed")
