#!/usr/bin/env python3
"""Sensitivity helper: apply a textual mutation to /repo, run a check, revert.
usage: trymut.py <ID[,ID...]> <file-relative-to-/repo> <old> <new> [occurrence-index|all]
Prints the check's verdict. /repo must be clean; it is restored with git checkout afterwards."""
import subprocess, sys, os
ids, rel, old, new = sys.argv[1].split(","), sys.argv[2], sys.argv[3], sys.argv[4]
which = sys.argv[5] if len(sys.argv) > 5 else "0"
repo = "/repo"
st = subprocess.run(["git", "-C", repo, "status", "--porcelain"], capture_output=True, text=True).stdout
if st.strip():
    print("repo not clean:\n" + st); sys.exit(3)
p = os.path.join(repo, rel)
s = open(p).read()
old = old.encode().decode("unicode_escape"); new = new.encode().decode("unicode_escape")
n = s.count(old)
if n == 0:
    print("pattern not found"); sys.exit(3)
if which == "all":
    s2 = s.replace(old, new)
else:
    k = int(which); parts = s.split(old)
    s2 = old.join(parts[:k+1]) + new + old.join(parts[k+1:])
open(p, "w").write(s2)
try:
    env = dict(os.environ, GOFLAGS="-mod=mod", GOPROXY="off", GOSUMDB="off", GOTOOLCHAIN="local")
    b = subprocess.run(["go", "build", "./..."], cwd=repo, env=env, capture_output=True, text=True)
    if b.returncode != 0:
        print("MUTANT DOES NOT COMPILE\n" + b.stderr[-1500:]); sys.exit(3)
    for i in ids:
        r = subprocess.run(["./vcheck", i, os.environ.get("TIER", "quick")], cwd="/verif", capture_output=True, text=True)
        lines = [l for l in r.stdout.splitlines() if l.strip()]
        verdict = {0: "MISSED (exit 0)", 1: "CAUGHT", 2: "INCONCLUSIVE (exit 2)"}.get(r.returncode, "rc=%d" % r.returncode)
        print("%s: %s  [%d occurrences of pattern]" % (i, verdict, n))
        for l in lines[:6]:
            print("   " + l[:300])
finally:
    subprocess.run(["git", "-C", repo, "checkout", "--", "."])
