#!/usr/bin/env python3
"""Re-run our checks against seeded changes that are already stored under /verif/seeded.

usage: seedrecheck.py [PREFIX ...]      e.g. seedrecheck.py C15 C14-r3   (default: all)

For every seeded/<name>/ whose name starts with one of the prefixes: apply patch.diff to /repo, run the quick
check of each property recorded in meta.json's our_checks (default: the property itself), restore /repo, and
store the outcome in meta.json (our_checks, rechecked_at_commit). Prints one line per seed. /repo must be clean.
"""
import json, os, subprocess, sys, glob, time
REPO, VERIF = "/repo", "/verif"

def main():
    pre = sys.argv[1:] or [""]
    if subprocess.run(["git", "-C", REPO, "status", "--porcelain"], capture_output=True, text=True).stdout.strip():
        print("repo not clean"); sys.exit(3)
    head = subprocess.run(["git", "-C", REPO, "rev-parse", "--short", "HEAD"], capture_output=True, text=True).stdout.strip()
    for d in sorted(glob.glob(os.path.join(VERIF, "seeded", "*"))):
        name = os.path.basename(d)
        if not os.path.isdir(d) or not any(name.startswith(p) for p in pre):
            continue
        mp = os.path.join(d, "meta.json")
        meta = json.load(open(mp))
        if meta.get("superseded"):
            print(name, "superseded:", meta["superseded"][:80]); continue
        checks = list((meta.get("our_checks") or {}).keys()) or [meta["property"]]
        r = subprocess.run(["git", "-C", REPO, "apply", os.path.join(d, "patch.diff")], capture_output=True, text=True)
        if r.returncode:
            print(name, "PATCH DOES NOT APPLY:", r.stderr.strip()[:200]); continue
        out = {}
        try:
            for c in checks:
                t0 = time.time()
                r = subprocess.run(["./vcheck", c, "quick"], cwd=VERIF, capture_output=True, text=True)
                lines = [l for l in r.stdout.splitlines() if l.strip()]
                out[c] = {"tier": "quick", "exit": r.returncode, "caught": r.returncode == 1,
                          "failing": [l.strip()[:300] for l in lines if "failing sub-property" in l or "DATA RACE" in l or "crash" in l][:4],
                          "wall_s": round(time.time() - t0, 1)}
        finally:
            subprocess.run(["git", "-C", REPO, "checkout", "--", "."])
        meta["our_checks"] = out
        meta["rechecked_at_commit"] = head
        json.dump(meta, open(mp, "w"), indent=1)
        print(name, " ".join("%s=%s" % (c, "CAUGHT" if v["caught"] else "missed(rc=%d)" % v["exit"]) for c, v in out.items()), flush=True)

main()
