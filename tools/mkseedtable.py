#!/usr/bin/env python3
"""Regenerates the seeded-changes table (between the SEEDTABLE markers) in DESIGN.md from seeded/*/meta.json."""
import json, os, glob, re
ROOT = os.path.dirname(os.path.dirname(os.path.abspath(__file__)))
rows = []
for d in sorted(glob.glob(os.path.join(ROOT, "seeded", "C*-*m[0-9]"))):
    m = json.load(open(os.path.join(d, "meta.json")))
    name = os.path.basename(d)
    caught = []
    for c, r in (m.get("our_checks") or {}).items():
        if r.get("caught"):
            f = (r.get("failing") or [""])[0]
            k = re.search(r"failing sub-property (\S+) \[([^\]]+)\]", f)
            caught.append("%s %s%s" % (c, r.get("tier", "quick"), (": %s [%s]" % (k.group(1), k.group(2))) if k else " (race report)" if r.get("exit") == 1 else ""))
    title = (m.get("title") or "").replace("|", "/")
    needs = (m.get("needs_to_manifest") or "").replace("|", "/").replace("\n", " ")
    if len(needs) > 220:
        needs = needs[:217] + "..."
    verdict = "; ".join(caught) if caught else "**not caught**"
    if m.get("superseded"):
        verdict = "superseded: " + m["superseded"]
    rows.append("| %s | %s | %s | %s |" % (name, title, needs, verdict))
table = "| seed | change | needs to manifest | caught by (latest run) |\n|------|--------|-------------------|------------------------|\n" + "\n".join(rows) + "\n"
p = os.path.join(ROOT, "DESIGN.md")
s = open(p).read()
a, b = "<!-- SEEDTABLE-BEGIN -->\n", "<!-- SEEDTABLE-END -->"
if a in s and b in s:
    s = s[:s.index(a) + len(a)] + table + s[s.index(b):]
    open(p, "w").write(s)
print(len(rows), "seeds")
