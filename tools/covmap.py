#!/usr/bin/env python3
"""Which library code does a check actually execute?

usage: covmap.py <ID> [--all-files] [--scale F]

Builds props/<id> with -cover over github.com/biogo/biogo/..., runs one quick
shard (VERIF_SCALE default 0.25), and prints per-function statement coverage
for the files the property is anchored in (properties.jsonl 'anchors.files'),
listing functions that are never or only partly executed. A development aid
for finding behaviour behind a property that no generated case reaches; it is
not part of any registered check.
"""
import json, os, subprocess, sys, tempfile, shutil, re

ROOT = os.path.dirname(os.path.dirname(os.path.abspath(__file__)))
_mf = os.environ.get("VERIF_MODFILE")
ENV = dict(os.environ, GOFLAGS="-mod=mod" + ((" -modfile=" + _mf) if _mf else ""), GOPROXY="off", GOSUMDB="off", GOTOOLCHAIN="local", VERIF_ROOT=ROOT)

def main():
    pid = sys.argv[1]
    allfiles = "--all-files" in sys.argv
    scale = "0.25"
    if "--scale" in sys.argv:
        scale = sys.argv[sys.argv.index("--scale") + 1]
    cfg = json.load(open(os.path.join(ROOT, "checks.json")))[pid]
    anchors = []
    for l in open(os.path.join(ROOT, "properties.jsonl")):
        p = json.loads(l)
        if p["id"] == pid:
            anchors = p["anchors"].get("files", [])
    d = tempfile.mkdtemp(prefix="covmap-", dir=os.path.join(ROOT, ".work") if os.path.isdir(os.path.join(ROOT, ".work")) else None)
    try:
        binp = os.path.join(d, "t.test")
        r = subprocess.run(["go", "test", "-c", "-tags", "verif", "-vet=off", "-cover", "-coverpkg=github.com/biogo/biogo/...", "-o", binp, "./" + cfg["pkg"]],
                           cwd=ROOT, env=ENV, capture_output=True, text=True)
        if r.returncode:
            print(r.stderr[-3000:]); sys.exit(2)
        prof = os.path.join(d, "cover.out")
        env = dict(ENV, VERIF_TIER="quick", VERIF_SHARD="0", VERIF_NSHARDS="1", VERIF_PROP=pid, VERIF_BIN=binp, VERIF_SCALE=scale,
                   TMPDIR=d, VERIF_STATS=os.path.join(d, "stats.json"))
        r = subprocess.run([binp, "-test.count=1", "-test.timeout", "1200s", "-rapid.seed", "1", "-rapid.nofailfile", "-test.coverprofile", prof],
                           cwd=d, env=env, capture_output=True, text=True)
        print("run rc=%d %s" % (r.returncode, r.stdout.strip().splitlines()[-1] if r.stdout.strip() else ""))
        fr = subprocess.run(["go", "tool", "cover", "-func", prof], cwd=ROOT, env=ENV, capture_output=True, text=True)
        rows = []
        for line in fr.stdout.splitlines():
            m = re.match(r"github.com/biogo/biogo/(\S+?):(\d+):\s+(\S+)\s+([\d.]+)%", line)
            if not m:
                continue
            f, ln, fn, pct = m.group(1), int(m.group(2)), m.group(3), float(m.group(4))
            if allfiles or f in anchors:
                rows.append((f, ln, fn, pct))
        cur = None
        for f, ln, fn, pct in rows:
            if pct >= 100.0:
                continue
            if f != cur:
                print("== " + f); cur = f
            print("   %5.1f%%  %s:%d %s" % (pct, f, ln, fn))
        # uncovered blocks in anchor files
        if "--src" in sys.argv:
            want = sys.argv[sys.argv.index("--src") + 1].split(",")
            unc = {}
            for line in open(prof):
                m = re.match(r"github.com/biogo/biogo/(\S+?):(\d+)\.(\d+),(\d+)\.(\d+) (\d+) (\d+)", line)
                if m and any(m.group(1).endswith(w) for w in want) and m.group(7) == "0":
                    unc.setdefault(m.group(1), set()).update(range(int(m.group(2)), int(m.group(4)) + 1))
            for f, lines in sorted(unc.items()):
                src = open(os.path.join(os.environ.get("VERIF_REPO", "/repo"), f)).read().splitlines()
                print("---- uncovered lines of " + f)
                prev = None
                for n in sorted(lines):
                    if prev is not None and n != prev + 1:
                        print("      ...")
                    print("%5d %s" % (n, src[n - 1]))
                    prev = n
    finally:
        shutil.rmtree(d, ignore_errors=True)

main()
