#!/usr/bin/env python3
"""Print, per sub-property, the tightest ratio (measured class fraction / required fraction)
found in /verif/evidence/*.json. Ratios near 1 mean a run may come out inconclusive by chance."""
import json, glob, sys
rows = []
for f in sorted(glob.glob("/verif/evidence/*.json")):
    e = json.load(open(f))
    for name, sp in e["coverage"].get("sub_properties", {}).items():
        n = sp["evaluations"]
        for label, frac in (sp.get("required_class_fractions") or {}).items():
            got = sp["classes"].get(label, 0) / max(1, n)
            rows.append((got / frac, e["property_id"], name, label, frac, round(got, 4), n))
rows.sort()
for r in rows[: int(sys.argv[1]) if len(sys.argv) > 1 else 25]:
    print("%.2fx %s %s %s required %.3f measured %.4f (n=%d)" % r)
