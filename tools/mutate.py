#!/usr/bin/env python3
"""Systematic sensitivity measurement: syntactic mutants of the anchored library files against our quick checks.

usage: mutate.py [--workers N] [--files f1,f2,...] [--out results.jsonl] [--limit N] [--redo earlier-results.jsonl]

--redo runs only the mutants that an earlier results file lists as survived or inconclusive (after the checks
were strengthened), writing to --out.

For every mutation site that tools/gomut finds in the files the properties are anchored in (quality-letter twins
of generated aligner files are skipped), in a private scratch worktree of /repo:
  1. the mutant must compile                         (otherwise: stillborn)
  2. the tests of its own package must still pass    (otherwise: killed-by-package-tests)
  3. the quick checks of the properties anchored in that file are run until one reports a violation
     (caught-by <ID>), is inconclusive (exit 2) or all pass (survived).
/repo and /verif/evidence are never touched (VERIF_MODFILE / VERIF_BUILD / VERIF_WORK / VERIF_EVIDENCE_DIR).
Survivors are listed for inspection: they are equivalent mutants, changes outside the statements, or gaps.
"""
import json, os, subprocess, sys, threading, queue, time, shutil, collections

VERIF, REPO, BASE = "/verif", "/repo", "/tmp/mut"
ENV = dict(os.environ, GOFLAGS="-mod=mod", GOPROXY="off", GOSUMDB="off", GOTOOLCHAIN="local")

def sh(cmd, cwd, env=None, timeout=600):
    try:
        r = subprocess.run(cmd, cwd=cwd, env=env or ENV, capture_output=True, text=True, timeout=timeout)
        return r.returncode, r.stdout + r.stderr
    except subprocess.TimeoutExpired:
        return -9, "timeout"

def main():
    a = sys.argv[1:]
    workers, files, out, limit, redo = 12, None, os.path.join(BASE, "results.jsonl"), None, None
    while a:
        if a[0] == "--workers": workers = int(a[1]); a = a[2:]
        elif a[0] == "--files": files = a[1].split(","); a = a[2:]
        elif a[0] == "--out": out = a[1]; a = a[2:]
        elif a[0] == "--limit": limit = int(a[1]); a = a[2:]
        elif a[0] == "--redo": redo = a[1]; a = a[2:]
        else: a = a[1:]
    props = collections.OrderedDict()
    for l in open(os.path.join(VERIF, "properties.jsonl")):
        p = json.loads(l)
        for f in p["anchors"].get("files", []):
            props.setdefault(f, []).append(p["id"])
    os.makedirs(BASE, exist_ok=True)
    gomut = os.path.join(BASE, "gomut")
    rc, o = sh(["go", "build", "-o", gomut, "./tools/gomut"], VERIF)
    if rc: print(o); sys.exit(2)
    # a pristine copy of HEAD to read the sources from (the working tree of /repo may be patched by a
    # seed check running at the same time)
    src = os.path.join(BASE, "src")
    shutil.rmtree(src, ignore_errors=True); os.makedirs(src)
    subprocess.run("git -C %s archive HEAD | tar -x -C %s" % (REPO, src), shell=True, check=True)
    tasks = []
    for f, ids in props.items():
        if files and f not in files: continue
        if f.endswith("_qletters.go"): continue
        rc, o = sh([gomut, "-file", os.path.join(src, f), "-list"], VERIF)
        for line in o.splitlines():
            if line.startswith("{"):
                s = json.loads(line)
                if s["func"].startswith(("draw", "pointer")):
                    continue  # the aligners' debugging table printers (dead unless a debug constant is set)
                tasks.append((f, ids, s))
    if redo:
        last = {}
        for l in open(redo):
            try:
                r = json.loads(l); last[(r["file"], r["id"])] = r["outcome"]
            except Exception: pass
        tasks = [t for t in tasks if last.get((t[0], t[2]["id"])) in ("survived", "inconclusive")]
    if limit:
        step = max(1, len(tasks) // limit)
        tasks = tasks[::step][:limit]
    print("%d mutation sites" % len(tasks), flush=True)
    done = set()
    if os.path.exists(out):
        for l in open(out):
            try:
                r = json.loads(l); done.add((r["file"], r["id"]))
            except Exception: pass
    q = queue.Queue()
    for t in tasks:
        if (t[0], t[2]["id"]) not in done: q.put(t)
    print("%d to do (%d already in %s)" % (q.qsize(), len(done), out), flush=True)
    lock = threading.Lock()
    head = subprocess.run(["git", "-C", REPO, "rev-parse", "HEAD"], capture_output=True, text=True).stdout.strip()
    counts = collections.Counter()

    def worker(j):
        wt = os.path.join(BASE, "w%d" % j)
        if not os.path.isdir(wt):
            sh(["git", "-C", REPO, "worktree", "add", "-q", "--detach", wt, head], REPO)
        sh("git checkout -q --detach %s && git checkout -q -- . && git clean -fdq" % head, wt, env=dict(ENV), timeout=120) if False else subprocess.run("git checkout -q --detach %s && git checkout -q -- . && git clean -fdq" % head, cwd=wt, shell=True)
        mod = os.path.join(BASE, "w%d.mod" % j)
        open(mod, "w").write(open(os.path.join(VERIF, "go.mod")).read().replace("=> /repo", "=> " + wt))
        shutil.copy(os.path.join(VERIF, "go.sum"), os.path.join(BASE, "w%d.sum" % j))
        venv = dict(ENV, VERIF_MODFILE=mod, VERIF_REPO=wt, VERIF_BUILD=os.path.join(BASE, "b%d" % j), VERIF_WORK=os.path.join(BASE, "k%d" % j),
                    VERIF_EVIDENCE_DIR=os.path.join(BASE, "e%d" % j), VERIF_TIMEOUT_S="150")
        while True:
            try:
                f, ids, s = q.get_nowait()
            except queue.Empty:
                return
            res = {"file": f, "id": s["id"], "line": s["line"], "kind": s["kind"], "func": s["func"], "orig": s["orig"][:80], "repl": s["repl"][:80]}
            t0 = time.time()
            path = os.path.join(wt, f)
            rc, o = sh([gomut, "-file", os.path.join(src, f), "-apply", str(s["id"]), "-out", path], VERIF)
            pkg = "./" + os.path.dirname(f)
            try:
                rc, o = sh(["go", "build", pkg], wt, timeout=300)
                if rc != 0:
                    res["outcome"] = "stillborn"
                else:
                    rc, o = sh(["go", "test", "-count=1", "-vet=off", "-timeout", "120s", pkg], wt, timeout=200)
                    if rc != 0:
                        res["outcome"] = "killed-by-package-tests"
                    else:
                        res["outcome"] = "survived"
                        for pid in ids:
                            rc, o = sh(["./vcheck", pid, "quick"], VERIF, env=venv, timeout=900)
                            if rc == 1:
                                res["outcome"] = "caught-by " + pid
                                fl = [l for l in o.splitlines() if "failing sub-property" in l or "DATA RACE" in l or "crash" in l]
                                res["evidence"] = (fl[0] if fl else "")[:160]
                                break
                            if rc != 0:
                                res.setdefault("inconclusive", []).append("%s rc=%d" % (pid, rc))
                        if res["outcome"] == "survived" and res.get("inconclusive"):
                            res["outcome"] = "inconclusive"
            finally:
                subprocess.run(["git", "checkout", "-q", "--", f], cwd=wt)
            res["wall_s"] = round(time.time() - t0, 1)
            with lock:
                counts[res["outcome"].split()[0]] += 1
                with open(out, "a") as fh:
                    fh.write(json.dumps(res) + "\n")
                n = sum(counts.values())
                if n % 25 == 0:
                    print(n, dict(counts), flush=True)

    ths = [threading.Thread(target=worker, args=(j,)) for j in range(workers)]
    for t in ths: t.start()
    for t in ths: t.join()
    print("done", dict(counts), flush=True)

main()
