// Package alignx holds the case format, the independent reference
// implementations (textbook recurrences with all transitions, and a literal
// enumeration of alignments for tiny inputs), and the path / score
// recomputation used by the aligner properties C08 and C09.
package alignx

import (
	"fmt"
	"strings"

	"github.com/biogo/biogo/align"
	"github.com/biogo/biogo/alphabet"
	"github.com/biogo/biogo/feat"
	"github.com/biogo/biogo/seq/linear"
	"pgregory.net/rapid"
)

// MatSpec is a compact description of a scoring matrix (see Build).
type MatSpec struct {
	Diag   []int `json:"diag"`    // substitution score of letter i with itself, cycled
	Off    []int `json:"off"`     // substitution score of (i,j), i != j: Off[(5i+3j) mod len] (asymmetric)
	GapRow []int `json:"gap_row"` // M[0][j]: gap in the reference opposite query letter j (<= 0), cycled
	GapCol []int `json:"gap_col"` // M[i][0]: gap in the query opposite reference letter i (<= 0), cycled
	// Scale multiplies every entry (0 and 1: none). Large scales give scores far outside 32 bits
	// while every sum over the short sequences they are used with stays far inside 64.
	Scale int `json:"scale,omitempty"`
}

// Case is one alignment problem.
type Case struct {
	Aligner  string  `json:"aligner"` // NW NWAffine SW SWAffine Fitted FittedAffine
	Alpha    string  `json:"alpha"`   // DNAgapped RNAgapped DNAredundant Protein
	R        string  `json:"r"`
	Q        string  `json:"q"`
	Mat      MatSpec `json:"mat"`
	GapOpen  int     `json:"gap_open"`
	QLetters bool    `json:"qletters"`
	// Oversize: the matrix handed to the aligner is square with this many
	// rows and columns more than the alphabet has letters (the surplus cells
	// hold junk no letter can select).
	Oversize int `json:"oversize,omitempty"`
	// PreMat, PreR, PreQ: when PreMat is set the very same matrix object and
	// aligner value are first used, holding PreMat's scores, to align PreR
	// with PreQ; the matrix is then overwritten in place with Mat's scores
	// and the case proper is aligned. Nothing of the first use may survive.
	PreMat *MatSpec `json:"pre_mat,omitempty"`
	PreR   string   `json:"pre_r,omitempty"`
	PreQ   string   `json:"pre_q,omitempty"`
	// ROff, QOff: location offsets given to the two sequences. The aligners work on letter positions
	// counted from 0, so offsets change nothing.
	ROff int `json:"r_offset,omitempty"`
	QOff int `json:"q_offset,omitempty"`
	// EarlierR (as long as R): the reference object is first aligned, by the same aligner value and with
	// the same query, while it holds these letters; they are then overwritten in place with R's and the case
	// proper is aligned. The result depends on the letters the sequence holds at the time of the call.
	EarlierR string `json:"earlier_r,omitempty"`
}

// GenUsage draws the two usage dimensions above for a case whose other
// fields are already drawn.
func GenUsage(t *rapid.T, c *Case, pool string, genMat func(*rapid.T) MatSpec) {
	if rapid.IntRange(0, 5).Draw(t, "sequence-offsets") == 3 {
		c.ROff = rapid.SampledFrom([]int{1, 3, 17, 1000, -2}).Draw(t, "r-offset")
		c.QOff = rapid.SampledFrom([]int{0, 1, 5, 40, -7}).Draw(t, "q-offset")
	}
	if rapid.IntRange(0, 4).Draw(t, "oversize-matrix") == 0 {
		c.Oversize = rapid.IntRange(1, 3).Draw(t, "oversize")
	}
	if len(c.R) > 0 && rapid.IntRange(0, 5).Draw(t, "reference-edited-in-place") == 0 {
		if len(c.R) <= 64 {
			x := make([]byte, len(c.R))
			for i := range x {
				x[i] = pool[rapid.IntRange(0, len(pool)-1).Draw(t, "earlier-r")]
			}
			c.EarlierR = string(x)
		} else {
			k := rapid.IntRange(1, len(c.R)-1).Draw(t, "earlier-r-rotation")
			c.EarlierR = c.R[k:] + c.R[:k]
		}
	}
	large := (len(c.R)+1)*(len(c.Q)+1) >= 65536
	reuse := rapid.IntRange(0, 4).Draw(t, "matrix-reused") == 0
	if large {
		// for a large table the earlier use is large as well (whatever is kept between two calls
		// of an aligner - a pooled table, a cached matrix - is then still warm), and more frequent
		reuse = rapid.Bool().Draw(t, "matrix-reused-large")
	}
	if reuse {
		pm := genMat(t)
		c.PreMat = &pm
		b := func(label string) string {
			n := rapid.IntRange(1, 8).Draw(t, label+"-len")
			if large {
				n = rapid.IntRange(257, 420).Draw(t, label+"-len-large")
			}
			x := make([]byte, n)
			for i := range x {
				x[i] = pool[rapid.IntRange(0, len(pool)-1).Draw(t, label)]
			}
			return string(x)
		}
		c.PreR, c.PreQ = b("pre-r"), b("pre-q")
	}
}

// UsageClasses labels the usage dimensions for the histograms.
func (c Case) UsageClasses() []string {
	var l []string
	if c.Oversize > 0 {
		l = append(l, "matrix-larger-than-alphabet")
	}
	if c.PreMat != nil {
		l = append(l, "matrix-object-reused-after-edit-in-place")
	}
	if c.ROff != 0 || c.QOff != 0 {
		l = append(l, "sequences-with-location-offsets")
	}
	if c.EarlierR != "" && c.EarlierR != c.R {
		l = append(l, "reference-object-aligned-before-an-edit-in-place")
	}
	return l
}

// Matrix builds the matrix object handed to the library: Mat's scores in the
// leading n x n cells of an (n+Oversize)-square matrix.
func (c Case) Matrix(spec MatSpec) [][]int {
	n := Alpha(c.Alpha).Len()
	core := spec.Build(n)
	N := n + c.Oversize
	out := make([][]int, N)
	for i := range out {
		out[i] = make([]int, N)
		for j := range out[i] {
			if i < n && j < n {
				out[i][j] = core[i][j]
			} else {
				out[i][j] = (7*i+11*j)%25 - 12
			}
		}
	}
	return out
}

func (c Case) Affine() bool { return strings.HasSuffix(c.Aligner, "Affine") }

func Alpha(n string) alphabet.Alphabet {
	switch n {
	case "DNAgapped":
		return alphabet.DNAgapped
	case "RNAgapped":
		return alphabet.RNAgapped
	case "DNAredundant":
		return alphabet.DNAredundant
	case "Protein":
		return alphabet.Protein
	case "DNA":
		return alphabet.DNA
	}
	panic("unknown alphabet " + n)
}

func cyc(a []int, i int) int {
	if len(a) == 0 {
		return 0
	}
	return a[i%len(a)]
}

// Build expands the matrix for an alphabet of n letters (index 0 is the gap).
func (m MatSpec) Build(n int) [][]int {
	scale := m.Scale
	if scale == 0 {
		scale = 1
	}
	out := make([][]int, n)
	defer func() {
		for i := range out {
			for j := range out[i] {
				out[i][j] *= scale
			}
		}
	}()
	for i := range out {
		out[i] = make([]int, n)
		for j := range out[i] {
			switch {
			case i == 0 && j == 0:
				out[i][j] = 0
			case i == 0:
				out[i][j] = cyc(m.GapRow, j)
			case j == 0:
				out[i][j] = cyc(m.GapCol, i)
			case i == j:
				out[i][j] = cyc(m.Diag, i)
			default:
				out[i][j] = cyc(m.Off, 5*i+3*j)
			}
		}
	}
	return out
}

// Scoring is the scoring scheme in index space.
type Scoring struct {
	M      [][]int
	Open   int
	Affine bool
}

func (s Scoring) sub(r, q int) int { return s.M[r][q] }
func (s Scoring) up(r int) int     { return s.M[r][0] } // reference letter r opposite a gap
func (s Scoring) left(q int) int   { return s.M[0][q] } // query letter q opposite a gap

// Indices converts letters to alphabet indices (-1 for illegal letters).
func Indices(a alphabet.Alphabet, s string) []int {
	out := make([]int, len(s))
	for i := 0; i < len(s); i++ {
		out[i] = a.IndexOf(alphabet.Letter(s[i]))
	}
	return out
}

const negInf = -1 << 56

func max2(a, b int) int {
	if a > b {
		return a
	}
	return b
}
func max3(a, b, c int) int { return max2(a, max2(b, c)) }

// Mode of the reference recurrences.
type Mode struct {
	Local          bool // Smith-Waterman: free start and end anywhere, value >= 0
	FreeRefPrefix  bool // fitted: the reference prefix is free
	AdjacentGaps   bool // a gap in one sequence may be followed directly by a gap in the other
	FittedRestrict bool // FittedAffine's restricted class: no leading query gap at a free start i > 0, end on a match column
}

// Tables are the three DP layers (M: letters aligned; X: reference letter
// opposite a gap; Y: query letter opposite a gap). For the linear model the
// three layers coincide in value and only Best is meaningful.
type Tables struct {
	n, m    int
	M, X, Y [][]int
}

func newLayer(n, m int) [][]int {
	t := make([][]int, n+1)
	for i := range t {
		t[i] = make([]int, m+1)
		for j := range t[i] {
			t[i][j] = negInf
		}
	}
	return t
}

// Fill computes the textbook three-state recurrence with every transition.
// For the linear model Open is taken as 0, which makes the three-state
// recurrence equal to the usual single-table one.
func Fill(r, q []int, s Scoring, mode Mode) Tables {
	n, m := len(r), len(q)
	open := 0
	if s.Affine {
		open = s.Open
	}
	T := Tables{n: n, m: m, M: newLayer(n, m), X: newLayer(n, m), Y: newLayer(n, m)}
	for i := 0; i <= n; i++ {
		for j := 0; j <= m; j++ {
			if i == 0 && j == 0 {
				T.M[0][0] = 0
				continue
			}
			if j == 0 && (mode.FreeRefPrefix || mode.Local) {
				T.M[i][0] = 0 // free start: nothing consumed yet
			}
			if i == 0 && mode.Local {
				T.M[0][j] = 0
			}
			if i > 0 && j > 0 {
				best := max3(T.M[i-1][j-1], T.X[i-1][j-1], T.Y[i-1][j-1])
				if mode.Local {
					best = max2(best, 0)
				}
				if best > negInf/2 {
					T.M[i][j] = best + s.sub(r[i-1], q[j-1])
				}
			}
			if i > 0 && !(j == 0 && (mode.FreeRefPrefix || mode.Local)) {
				// reference letter i opposite a gap
				cands := []int{T.M[i-1][j] + open, T.X[i-1][j]}
				if mode.AdjacentGaps {
					cands = append(cands, T.Y[i-1][j]+open)
				}
				best := negInf
				for _, c := range cands {
					best = max2(best, c)
				}
				if best > negInf/2 {
					T.X[i][j] = best + s.up(r[i-1])
				}
			}
			if j > 0 {
				fromM := T.M[i][j-1] + open
				if mode.FittedRestrict && j == 1 && i > 0 {
					fromM = negInf // no leading query gap at a free start i > 0
				}
				cands := []int{fromM, T.Y[i][j-1]}
				if mode.AdjacentGaps {
					cands = append(cands, T.X[i][j-1]+open)
				}
				best := negInf
				for _, c := range cands {
					best = max2(best, c)
				}
				if best > negInf/2 && !(i == 0 && mode.Local) {
					T.Y[i][j] = best + s.left(q[j-1])
				}
			}
		}
	}
	return T
}

func (t Tables) best(i, j int) int { return max3(t.M[i][j], t.X[i][j], t.Y[i][j]) }

// Global returns the maximum over all global alignments.
func Global(r, q []int, s Scoring, adjacent bool) int {
	t := Fill(r, q, s, Mode{AdjacentGaps: adjacent})
	return t.best(len(r), len(q))
}

// Local returns the maximum over all local alignments (0 if none is positive).
func Local(r, q []int, s Scoring, adjacent bool) int {
	t := Fill(r, q, s, Mode{Local: true, AdjacentGaps: adjacent})
	best := 0
	for i := 1; i <= len(r); i++ {
		for j := 1; j <= len(q); j++ {
			best = max2(best, t.M[i][j]) // an optimal local alignment ends on aligned letters (gaps are <= 0)
		}
	}
	return best
}

// FittedAt returns the maximum over all alignments of the whole query against
// r[s:e) for any s, for the given end e.
func FittedAt(r, q []int, e int, s Scoring, adjacent, restrict bool) int {
	t := Fill(r[:e], q, s, Mode{FreeRefPrefix: true, AdjacentGaps: adjacent, FittedRestrict: restrict})
	if restrict {
		return t.M[e][len(q)]
	}
	return t.best(e, len(q))
}

// ---- literal enumeration (tiny inputs) -----------------------------------------------------

// BruteGlobal enumerates every global alignment of r and q column by column.
func BruteGlobal(r, q []int, s Scoring, adjacent bool) int {
	open := 0
	if s.Affine {
		open = s.Open
	}
	best := negInf
	var rec func(i, j, last, score int)
	// last: 0 none/aligned, 1 reference letter opposite gap (X), 2 query letter opposite gap (Y)
	rec = func(i, j, last, score int) {
		if i == len(r) && j == len(q) {
			if score > best {
				best = score
			}
			return
		}
		if i < len(r) && j < len(q) {
			rec(i+1, j+1, 0, score+s.sub(r[i], q[j]))
		}
		if i < len(r) && (adjacent || last != 2) {
			c := s.up(r[i])
			if last != 1 {
				c += open
			}
			rec(i+1, j, 1, score+c)
		}
		if j < len(q) && (adjacent || last != 1) {
			c := s.left(q[j])
			if last != 2 {
				c += open
			}
			rec(i, j+1, 2, score+c)
		}
	}
	rec(0, 0, 0, 0)
	return best
}

// BruteLocal enumerates every global alignment of every pair of substrings.
func BruteLocal(r, q []int, s Scoring, adjacent bool) int {
	best := 0
	for a := 0; a <= len(r); a++ {
		for b := a; b <= len(r); b++ {
			for c := 0; c <= len(q); c++ {
				for d := c; d <= len(q); d++ {
					if v := BruteGlobal(r[a:b], q[c:d], s, adjacent); v > best {
						best = v
					}
				}
			}
		}
	}
	return best
}

// BruteFittedAt enumerates every global alignment of q against r[s:e) for all s.
func BruteFittedAt(r, q []int, e int, s Scoring, adjacent bool) int {
	best := negInf
	for a := 0; a <= e; a++ {
		if v := BruteGlobal(r[a:e], q, s, adjacent); v > best {
			best = v
		}
	}
	return best
}

// ---- running the library -------------------------------------------------------------------

// Seqs builds the two library sequences of a case.
func (c Case) Seqs() (align.AlphabetSlicer, align.AlphabetSlicer) {
	a := Alpha(c.Alpha)
	off := map[string]int{"r": c.ROff, "q": c.QOff}
	mk := func(id, s string) align.AlphabetSlicer {
		if c.QLetters {
			// the two sequences carry different qualities at the same positions (and never the
			// same run of qualities): qualities take no part in the alignment
			ql := make([]alphabet.QLetter, len(s))
			for i := range ql {
				q := 10 + i%30
				if id == "q" {
					q = 12 + (i*7)%23
				}
				ql[i] = alphabet.QLetter{L: alphabet.Letter(s[i]), Q: alphabet.Qphred(q)}
			}
			qs := linear.NewQSeq(id, ql, a, alphabet.Sanger)
			qs.Offset = off[id]
			return qs
		}
		ls := linear.NewSeq(id, alphabet.BytesToLetters([]byte(s)), a)
		ls.Offset = off[id]
		return ls
	}
	return mk("r", c.R), mk("q", c.Q)
}

// setLetters overwrites the letters of x in place, keeping its storage.
func setLetters(x align.AlphabetSlicer, s string) {
	switch x := x.(type) {
	case *linear.Seq:
		for i := range x.Seq {
			x.Seq[i] = alphabet.Letter(s[i])
		}
	case *linear.QSeq:
		for i := range x.Seq {
			x.Seq[i].L = alphabet.Letter(s[i])
		}
	}
}

// Aligner returns the library aligner for the case with the given matrix.
func (c Case) LibAligner(m [][]int) align.Aligner {
	switch c.Aligner {
	case "NW":
		return align.NW(m)
	case "SW":
		return align.SW(m)
	case "Fitted":
		return align.Fitted(m)
	case "NWAffine":
		return align.NWAffine{Matrix: m, GapOpen: c.GapOpen}
	case "SWAffine":
		return align.SWAffine{Matrix: m, GapOpen: c.GapOpen}
	case "FittedAffine":
		return align.FittedAffine{Matrix: m, GapOpen: c.GapOpen}
	}
	panic("unknown aligner " + c.Aligner)
}

// Pair is a feature pair in plain form.
type Pair struct {
	AS, AE, BS, BE int
	Score          int
}

func (p Pair) String() string {
	return fmt.Sprintf("r[%d,%d)/q[%d,%d)=%d", p.AS, p.AE, p.BS, p.BE, p.Score)
}

// Scorer is implemented by the pairs the aligners return.
type scorer interface{ Score() int }

func Plain(ps []feat.Pair) ([]Pair, error) {
	out := make([]Pair, len(ps))
	for i, p := range ps {
		f := p.Features()
		out[i] = Pair{AS: f[0].Start(), AE: f[0].End(), BS: f[1].Start(), BE: f[1].End()}
		sc, ok := p.(scorer)
		if !ok {
			return nil, fmt.Errorf("pair %d has no Score method", i)
		}
		out[i].Score = sc.Score()
	}
	return out, nil
}

// Run aligns the case with the library.
func (c Case) Run() ([]Pair, []feat.Pair, error) {
	m := c.Matrix(c.Mat)
	al := c.LibAligner(m)
	if c.PreMat != nil {
		final := m
		pre := c.Matrix(*c.PreMat)
		m = pre // the object the aligner value refers to
		al = c.LibAligner(m)
		pc := c
		pc.R, pc.Q = c.PreR, c.PreQ
		pr, pq := pc.Seqs()
		al.Align(pr, pq) // result irrelevant
		for i := range m {
			copy(m[i], final[i])
		}
	}
	r, q := c.Seqs()
	if len(c.EarlierR) == len(c.R) && c.EarlierR != "" {
		setLetters(r, c.EarlierR)
		al.Align(r, q) // result irrelevant
		setLetters(r, c.R)
	}
	ps, err := al.Align(r, q)
	if err != nil {
		return nil, nil, err
	}
	pl, err := Plain(ps)
	return pl, ps, err
}

// Kind of a pair: "block", "up" (reference letters opposite a gap), "left"
// (query letters opposite a gap), "empty", or "" when malformed.
func (p Pair) Kind() string {
	la, lb := p.AE-p.AS, p.BE-p.BS
	switch {
	case la < 0 || lb < 0:
		return ""
	case la == 0 && lb == 0:
		return "empty"
	case la == lb:
		return "block"
	case lb == 0:
		return "up"
	case la == 0:
		return "left"
	}
	return ""
}

// PathError describes a malformed alignment description.
type PathError struct{ Kind, Msg string }

func (e *PathError) Error() string { return e.Kind + ": " + e.Msg }

// CheckPath validates the structural clauses: one monotone path, each pair a
// block / single gap / empty, within bounds.
func CheckPath(ps []Pair, n, m int) *PathError {
	if len(ps) == 0 {
		return &PathError{"no-pairs", "the aligner returned no pairs"}
	}
	for i, p := range ps {
		if p.Kind() == "" {
			return &PathError{"bad-pair-shape", fmt.Sprintf("pair %d %v is neither an equal-length block nor a gap in exactly one sequence nor empty", i, p)}
		}
		if p.Kind() == "empty" && p.Score != 0 {
			return &PathError{"empty-pair-score", fmt.Sprintf("pair %d %v is empty but has score %d", i, p, p.Score)}
		}
		if p.AS < 0 || p.AE > n || p.BS < 0 || p.BE > m {
			return &PathError{"out-of-bounds", fmt.Sprintf("pair %d %v lies outside r[0,%d) x q[0,%d)", i, p, n, m)}
		}
		if i > 0 {
			prev := ps[i-1]
			if p.AS != prev.AE || p.BS != prev.BE {
				return &PathError{"not-abutting", fmt.Sprintf("pair %d %v does not start where pair %d %v ends", i, p, i-1, prev)}
			}
		}
	}
	return nil
}

// PairScore recomputes the score of one pair from the letters and parameters.
func PairScore(p Pair, r, q []int, s Scoring) int {
	open := 0
	if s.Affine {
		open = s.Open
	}
	switch p.Kind() {
	case "block":
		t := 0
		for k := 0; k < p.AE-p.AS; k++ {
			t += s.sub(r[p.AS+k], q[p.BS+k])
		}
		return t
	case "up":
		t := open
		for k := p.AS; k < p.AE; k++ {
			t += s.up(r[k])
		}
		return t
	case "left":
		t := open
		for k := p.BS; k < p.BE; k++ {
			t += s.left(q[k])
		}
		return t
	}
	return 0
}

// TotalScore is the score of the whole alignment under the model (adjacent
// gap pairs of the same kind form one gap run).
func TotalScore(ps []Pair, r, q []int, s Scoring) int {
	open := 0
	if s.Affine {
		open = s.Open
	}
	t := 0
	lastGap := ""
	for _, p := range ps {
		k := p.Kind()
		if k == "empty" {
			continue
		}
		t += PairScore(p, r, q, s)
		if (k == "up" || k == "left") && k == lastGap {
			t -= open // one run, opened once
		}
		lastGap = k
	}
	return t
}

// HasAdjacentOppositeGaps reports whether a gap in one sequence is directly
// followed by a gap in the other.
func HasAdjacentOppositeGaps(ps []Pair) bool {
	last := ""
	for _, p := range ps {
		k := p.Kind()
		if k == "empty" {
			continue
		}
		if (k == "up" && last == "left") || (k == "left" && last == "up") {
			return true
		}
		last = k
	}
	return false
}
