package iogen

import (
	"bytes"
	"fmt"
	"image/color"
	"io"
	"math"
	"strconv"
	"strings"
	"time"

	"github.com/biogo/biogo/alphabet"
	"github.com/biogo/biogo/feat"
	"github.com/biogo/biogo/io/featio"
	"github.com/biogo/biogo/io/featio/bed"
	"github.com/biogo/biogo/io/featio/gff"
	"github.com/biogo/biogo/seq"
	"github.com/biogo/biogo/seq/linear"
	"pgregory.net/rapid"
)

// ---------------------------------------------------------------- BED

// BedRec holds all twelve BED columns; N says which struct type carries it.
type BedRec struct {
	Chrom       string   `json:"chrom"`
	Start       int      `json:"start"`
	End         int      `json:"end"`
	Name        string   `json:"name"`
	Score       int      `json:"score"`
	Strand      int8     `json:"strand"`
	ThickStart  int      `json:"thick_start"`
	ThickEnd    int      `json:"thick_end"`
	RGB         [3]uint8 `json:"rgb"`
	Opaque      bool     `json:"opaque"` // false: zero colour (written "0")
	BlockSizes  []int    `json:"block_sizes"`
	BlockStarts []int    `json:"block_starts"`
}

// BedFile is a list of records of struct type N written at column count M <= N.
type BedFile struct {
	N     int `json:"n"`
	M     int `json:"m"`
	Route int `json:"route,omitempty"` // see GenRoute
	// Generic: the values handed to the writer are not the package's BedN structs
	// but some other feat.Feature located on a bed.Chrom (the writer's second
	// path): 1 = it also has a score and an orientation, 2 = it has neither
	// (columns 5 and 6 are then written as 0 and "."). Only for M <= 6.
	Generic int `json:"generic,omitempty"`
	// FirstM != 0: the writer is built for FirstM columns and its exported BedType field is set to M
	// afterwards, before the first record is written (one writer object reused for another width)
	FirstM int      `json:"first_m,omitempty"`
	Recs   []BedRec `json:"recs"`
}

// genericFeat is a feature that is not one of the BED structs.
type genericFeat struct{ r BedRec }

func (g genericFeat) Start() int             { return g.r.Start }
func (g genericFeat) End() int               { return g.r.End }
func (g genericFeat) Len() int               { return g.r.End - g.r.Start }
func (g genericFeat) Name() string           { return g.r.Name }
func (g genericFeat) Description() string    { return "a feature of another package" }
func (g genericFeat) Location() feat.Feature { return bed.Chrom(g.r.Chrom) }

type scoredFeat struct{ genericFeat }

func (g scoredFeat) Score() int                    { return g.r.Score }
func (g scoredFeat) Orientation() feat.Orientation { return feat.Orientation(g.r.Strand) }

// effective returns the record as the file is expected to hold it.
func (f BedFile) effective(r BedRec) BedRec {
	if f.Generic == 2 {
		r.Score, r.Strand = 0, 0
	}
	return r
}

// readAllFeat drives a feature reader to io.EOF, directly or through
// featio.Scanner, and returns every feature. Nothing is inspected before the
// end of the input, so storage reused between records shows up as wrong fields
// in the earlier ones.
func readAllFeat(r featio.Reader, route, maxCalls int) ([]feat.Feature, error) {
	var out []feat.Feature
	if route&1 != 0 {
		sc := featio.NewScanner(r)
		for i := 0; sc.Next(); i++ {
			f := sc.Feat()
			if f == nil {
				return out, fmt.Errorf("read: Scanner.Next true with a nil feature at record %d", len(out))
			}
			out = append(out, f)
			if i > maxCalls {
				return out, fmt.Errorf("read: no EOF after %d calls", i)
			}
		}
		if err := sc.Error(); err != nil {
			return out, fmt.Errorf("read-error: record %d: %v", len(out), err)
		}
		if sc.Next() {
			return out, fmt.Errorf("read: Scanner.Next true again after it returned false")
		}
		return out, nil
	}
	for i := 0; ; i++ {
		f, err := r.Read()
		if err == io.EOF {
			if f != nil {
				return out, fmt.Errorf("read: record together with io.EOF")
			}
			return out, nil
		}
		if err != nil {
			return out, fmt.Errorf("read-error: record %d: %v", len(out), err)
		}
		if f == nil {
			return out, fmt.Errorf("read: (nil, nil) at record %d", len(out))
		}
		out = append(out, f)
		if i > maxCalls {
			return out, fmt.Errorf("read: no EOF after %d calls", i)
		}
	}
}

var BedTypes = []int{3, 4, 5, 6, 12}

func genFieldText(t *rapid.T, label string) string {
	// non-empty, tab/CR/LF-free, trimmed, not starting with '#'
	for {
		if kw := genKeyword(t, label); kw != "" {
			if rapid.Bool().Draw(t, label+"-kw-bare") {
				return kw
			}
			return kw + genText(t, label+"-kwrest", 1, 6, false)
		}
		s := genText(t, label, 1, 10, false)
		if s[0] == '#' {
			s = "c" + s[1:]
		}
		if rapid.IntRange(0, 7).Draw(t, label+"-non-ascii-end") == 5 {
			// text is bytes to the formats: a field may end in a letter whose UTF-8 encoding ends in a
			// byte that, taken alone, is a Latin-1 space or control (0xA0, 0x85)
			s += rapid.SampledFrom([]string{"à", "Å", "Ġ", "Ѕ", "é", "日", "voilà"}).Draw(t, label+"-non-ascii")
		}
		return s
	}
}

func genInt(t *rapid.T, label string) int {
	switch rapid.IntRange(0, 9).Draw(t, label+"-class") {
	case 0:
		return rapid.SampledFrom([]int{0, 1, -1, math.MaxInt64, math.MinInt64, math.MaxInt32, math.MinInt32, math.MaxInt64 - 1, math.MinInt64 + 1}).Draw(t, label)
	case 1:
		return rapid.Int().Draw(t, label)
	case 2:
		return rapid.IntRange(-1000, 0).Draw(t, label)
	default:
		return rapid.IntRange(0, 1000000).Draw(t, label)
	}
}

// GenBedFile draws a BED case.
func GenBedFile(t *rapid.T, maxRecs int) BedFile {
	f := BedFile{N: rapid.SampledFrom([]int{3, 4, 5, 6, 12, 12, 12}).Draw(t, "bed-n")}
	var ms []int
	for _, m := range BedTypes {
		if m <= f.N {
			ms = append(ms, m)
		}
	}
	f.M = f.N
	f.Route = GenRoute(t)
	if rapid.Bool().Draw(t, "bed-narrower") {
		f.M = rapid.SampledFrom(ms).Draw(t, "bed-m")
	}
	if f.M <= 6 && rapid.IntRange(0, 2).Draw(t, "bed-generic") == 0 {
		f.Generic = rapid.IntRange(1, 2).Draw(t, "bed-generic-kind")
	}
	if rapid.IntRange(0, 4).Draw(t, "bed-width-set-later") == 0 {
		f.FirstM = rapid.SampledFrom(BedTypes).Draw(t, "bed-first-m")
	}
	n := rapid.IntRange(0, maxRecs).Draw(t, "nrecs")
	for i := 0; i < n; i++ {
		r := BedRec{
			Chrom: genFieldText(t, "chrom"), Start: genInt(t, "start"), End: genInt(t, "end"),
			Name: genFieldText(t, "name"), Score: genInt(t, "score"),
			Strand:     int8(rapid.IntRange(-1, 1).Draw(t, "strand")),
			ThickStart: genInt(t, "thick-start"), ThickEnd: genInt(t, "thick-end"),
			Opaque: rapid.Bool().Draw(t, "opaque"),
		}
		if r.Opaque {
			for j := range r.RGB {
				r.RGB[j] = uint8(rapid.SampledFrom([]int{0, 0, 1, 127, 255, 13}).Draw(t, "rgb"))
			}
		}
		nb := rapid.IntRange(1, 4).Draw(t, "nblocks")
		if f.N == 12 && rapid.IntRange(0, 19).Draw(t, "many-blocks") == 0 {
			// a line longer than any 4096-byte line buffer
			nb = rapid.IntRange(700, 1500).Draw(t, "nblocks-many")
			for j := 0; j < nb; j++ {
				r.BlockSizes = append(r.BlockSizes, 10+j%7)
				r.BlockStarts = append(r.BlockStarts, j*20)
			}
			nb = 0
		}
		for j := 0; j < nb; j++ {
			r.BlockSizes = append(r.BlockSizes, genInt(t, "block-size"))
			r.BlockStarts = append(r.BlockStarts, genInt(t, "block-start"))
		}
		f.Recs = append(f.Recs, r)
	}
	return f
}

// Value builds the library BED value of struct type n.
func (r BedRec) Value(n int) feat.Feature {
	switch n {
	case 3:
		return &bed.Bed3{Chrom: r.Chrom, ChromStart: r.Start, ChromEnd: r.End}
	case 4:
		return &bed.Bed4{Chrom: r.Chrom, ChromStart: r.Start, ChromEnd: r.End, FeatName: r.Name}
	case 5:
		return &bed.Bed5{Chrom: r.Chrom, ChromStart: r.Start, ChromEnd: r.End, FeatName: r.Name, FeatScore: r.Score}
	case 6:
		return &bed.Bed6{Chrom: r.Chrom, ChromStart: r.Start, ChromEnd: r.End, FeatName: r.Name, FeatScore: r.Score, FeatStrand: seq.Strand(r.Strand)}
	case 12:
		b := &bed.Bed12{Chrom: r.Chrom, ChromStart: r.Start, ChromEnd: r.End, FeatName: r.Name, FeatScore: r.Score, FeatStrand: seq.Strand(r.Strand),
			ThickStart: r.ThickStart, ThickEnd: r.ThickEnd, BlockCount: len(r.BlockSizes),
			BlockSizes: append([]int(nil), r.BlockSizes...), BlockStarts: append([]int(nil), r.BlockStarts...)}
		if r.Opaque {
			b.Rgb = color.RGBA{R: r.RGB[0], G: r.RGB[1], B: r.RGB[2], A: 0xff}
		}
		return b
	}
	panic("bad bed type")
}

// WriteLib writes the file with bed.Writer, checking byte counts.
func (f BedFile) WriteLib() ([]byte, error) {
	var buf bytes.Buffer
	first := f.M
	if f.FirstM != 0 {
		first = f.FirstM
	}
	w, err := bed.NewWriter(&buf, first)
	if err != nil {
		return nil, fmt.Errorf("write-error: NewWriter(%d): %v", first, err)
	}
	w.BedType = f.M
	for i, r := range f.Recs {
		before := buf.Len()
		var v feat.Feature = r.Value(f.N)
		switch f.Generic {
		case 1:
			v = scoredFeat{genericFeat{r}}
		case 2:
			v = genericFeat{r}
		}
		n, err := w.Write(v)
		if err != nil {
			return nil, fmt.Errorf("write-error: record %d: %v", i, err)
		}
		if n != buf.Len()-before {
			return nil, fmt.Errorf("byte-count: record %d: Write returned %d, %d bytes were emitted", i, n, buf.Len()-before)
		}
	}
	return buf.Bytes(), nil
}

// Text renders the first m columns of the records independently of the library.
func (f BedFile) Text(eol string, finalEOL bool) []byte {
	var b bytes.Buffer
	for i, r := range f.Recs {
		r = f.effective(r)
		cols := []string{r.Chrom, strconv.Itoa(r.Start), strconv.Itoa(r.End), r.Name, strconv.Itoa(r.Score), seq.Strand(r.Strand).String(),
			strconv.Itoa(r.ThickStart), strconv.Itoa(r.ThickEnd), "0", strconv.Itoa(len(r.BlockSizes)), joinInts(r.BlockSizes), joinInts(r.BlockStarts)}
		if r.Opaque {
			cols[8] = fmt.Sprintf("%d,%d,%d", r.RGB[0], r.RGB[1], r.RGB[2])
		}
		b.WriteString(strings.Join(cols[:f.M], "\t"))
		if i < len(f.Recs)-1 || finalEOL {
			b.WriteString(eol)
		}
	}
	return b.Bytes()
}

func joinInts(a []int) string {
	s := make([]string, len(a))
	for i, v := range a {
		s[i] = strconv.Itoa(v)
	}
	return strings.Join(s, ",")
}

// ReadLib parses data as BED type m until io.EOF and compares with the first
// m columns of the records.
func (f BedFile) ReadCompare(data []byte) error {
	r, err := bed.NewReader(Source(data, f.Route), f.M)
	if err != nil {
		return fmt.Errorf("read-error: NewReader: %v", err)
	}
	got, err := readAllFeat(r, f.Route, len(data)+2)
	if err != nil {
		return err
	}
	if len(got) != len(f.Recs) {
		return fmt.Errorf("record-count: wrote %d records, read %d", len(f.Recs), len(got))
	}
	for i := range got {
		if err := bedEqual(got[i], f.effective(f.Recs[i]), f.M); err != nil {
			return fmt.Errorf("field: record %d: %v", i, err)
		}
	}
	return nil
}

func bedEqual(got feat.Feature, r BedRec, m int) error {
	var g BedRec
	gn := 0
	switch b := got.(type) {
	case *bed.Bed3:
		gn = 3
		g = BedRec{Chrom: b.Chrom, Start: b.ChromStart, End: b.ChromEnd}
	case *bed.Bed4:
		gn = 4
		g = BedRec{Chrom: b.Chrom, Start: b.ChromStart, End: b.ChromEnd, Name: b.FeatName}
	case *bed.Bed5:
		gn = 5
		g = BedRec{Chrom: b.Chrom, Start: b.ChromStart, End: b.ChromEnd, Name: b.FeatName, Score: b.FeatScore}
	case *bed.Bed6:
		gn = 6
		g = BedRec{Chrom: b.Chrom, Start: b.ChromStart, End: b.ChromEnd, Name: b.FeatName, Score: b.FeatScore, Strand: int8(b.FeatStrand)}
	case *bed.Bed12:
		gn = 12
		g = BedRec{Chrom: b.Chrom, Start: b.ChromStart, End: b.ChromEnd, Name: b.FeatName, Score: b.FeatScore, Strand: int8(b.FeatStrand),
			ThickStart: b.ThickStart, ThickEnd: b.ThickEnd, BlockSizes: b.BlockSizes, BlockStarts: b.BlockStarts}
		if b.Rgb != (color.RGBA{}) {
			if b.Rgb.A != 0xff {
				return fmt.Errorf("colour alpha %d", b.Rgb.A)
			}
			g.Opaque = true
			g.RGB = [3]uint8{b.Rgb.R, b.Rgb.G, b.Rgb.B}
		}
		if b.BlockCount != len(r.BlockSizes) {
			return fmt.Errorf("BlockCount %d want %d", b.BlockCount, len(r.BlockSizes))
		}
	default:
		return fmt.Errorf("unexpected type %T", got)
	}
	if gn != m {
		return fmt.Errorf("reader of type %d returned a Bed%d", m, gn)
	}
	if got.Start() != r.Start || got.End() != r.End || got.Len() != r.End-r.Start {
		return fmt.Errorf("Start/End/Len = %d/%d/%d want %d/%d/%d", got.Start(), got.End(), got.Len(), r.Start, r.End, r.End-r.Start)
	}
	if g.Chrom != r.Chrom || g.Start != r.Start || g.End != r.End {
		return fmt.Errorf("columns 1-3: got %q %d %d want %q %d %d", g.Chrom, g.Start, g.End, r.Chrom, r.Start, r.End)
	}
	if m >= 4 && g.Name != r.Name {
		return fmt.Errorf("name: got %q want %q", g.Name, r.Name)
	}
	if m >= 5 && g.Score != r.Score {
		return fmt.Errorf("score: got %d want %d", g.Score, r.Score)
	}
	if m >= 6 && g.Strand != r.Strand {
		return fmt.Errorf("strand: got %d want %d", g.Strand, r.Strand)
	}
	if m >= 12 {
		if g.ThickStart != r.ThickStart || g.ThickEnd != r.ThickEnd {
			return fmt.Errorf("thick: got %d,%d want %d,%d", g.ThickStart, g.ThickEnd, r.ThickStart, r.ThickEnd)
		}
		if g.Opaque != r.Opaque || (r.Opaque && g.RGB != r.RGB) {
			return fmt.Errorf("rgb: got %v/%v want %v/%v", g.Opaque, g.RGB, r.Opaque, r.RGB)
		}
		if !intsEqual(g.BlockSizes, r.BlockSizes) || !intsEqual(g.BlockStarts, r.BlockStarts) {
			return fmt.Errorf("blocks: got %v %v want %v %v", g.BlockSizes, g.BlockStarts, r.BlockSizes, r.BlockStarts)
		}
	}
	return nil
}

func intsEqual(a, b []int) bool {
	if len(a) != len(b) {
		return false
	}
	for i := range a {
		if a[i] != b[i] {
			return false
		}
	}
	return true
}

// ---------------------------------------------------------------- GFF

type GffAttr struct {
	Tag   string `json:"tag"`
	Value string `json:"value"`
}

// GffItem is one element of a GFF file.
type GffItem struct {
	Kind string `json:"kind"` // feature | region | type | seq | comment

	SeqName  string    `json:"seqname,omitempty"`
	Source   string    `json:"source,omitempty"`
	Feature  string    `json:"feature,omitempty"`
	Start    int       `json:"start,omitempty"` // zero-based
	End      int       `json:"end,omitempty"`
	HasScore bool      `json:"has_score,omitempty"`
	Score    uint64    `json:"score_bits,omitempty"` // float64 bits
	Strand   int8      `json:"strand,omitempty"`
	Frame    int8      `json:"frame,omitempty"` // -1 none, 0..2
	AttrsNil bool      `json:"attrs_nil,omitempty"`
	Attrs    []GffAttr `json:"attrs,omitempty"`
	Comments string    `json:"comments,omitempty"`

	Mol  string `json:"mol,omitempty"` // type / seq
	Pat  string `json:"pat,omitempty"`
	Len  int    `json:"len,omitempty"`
	Desc string `json:"desc,omitempty"`

	Text string `json:"text,omitempty"` // comment
}

type GffFile struct {
	Header bool `json:"header"`
	Width  int  `json:"width"`
	Route  int  `json:"route,omitempty"` // see GenRoute
	// WholeScores: the writer's exported Precision option is 0 (scores printed with %.0f) and every score
	// in the file is a whole number, some of them beyond the 64-bit integers
	WholeScores bool      `json:"whole_scores,omitempty"`
	Items       []GffItem `json:"items"`
}

func genTag(t *rapid.T) string {
	n := rapid.IntRange(1, 8).Draw(t, "taglen")
	const pool = "abcdefghijklmnopqrstuvwxyzABCDEFGHIJKLMNOPQRSTUVWXYZ_"
	b := make([]byte, n)
	for i := range b {
		b[i] = pool[rapid.IntRange(0, len(pool)-1).Draw(t, "tagc")]
	}
	if b[0] == '_' {
		b[0] = 'T'
	}
	return string(b)
}

func genAttrValue(t *rapid.T) string {
	s := genText(t, "attrval", 1, 12, false)
	s = strings.ReplaceAll(s, ";", ",")
	if rapid.IntRange(0, 3).Draw(t, "quoted") == 0 {
		s = `"` + s + `"`
	}
	return s
}

func genScoreBits(t *rapid.T) uint64 {
	for {
		var f float64
		switch rapid.IntRange(0, 7).Draw(t, "score-class") {
		case 0:
			f = rapid.SampledFrom([]float64{0, math.Copysign(0, -1), 1, -1, math.Inf(1), math.Inf(-1), math.MaxFloat64, math.SmallestNonzeroFloat64, 0.1, 1e21, 1e-7, 123456789.123456789}).Draw(t, "score")
		case 1:
			f = math.Float64frombits(rapid.Uint64().Draw(t, "score-bits"))
		case 2:
			f = float64(rapid.IntRange(-1000, 1000).Draw(t, "score-int"))
		default:
			f = rapid.Float64().Draw(t, "score-f")
		}
		if math.IsNaN(f) {
			continue // the writer prints NaN as '.', i.e. as "no score"
		}
		return math.Float64bits(f)
	}
}

var mols = []string{"DNA", "RNA", "Protein"}

func molAlphabet(m string) alphabet.Alphabet {
	switch m {
	case "DNA":
		return alphabet.DNA
	case "RNA":
		return alphabet.RNA
	}
	return alphabet.Protein
}

func genBlankFreeToken(t *rapid.T, label string) string {
	s := genToken(t, label, 1, 10)
	if s[0] == '#' {
		s = "s" + s[1:]
	}
	return s
}

// GenGffFile draws a GFF case.
func GenGffFile(t *rapid.T, maxItems int) GffFile {
	f := GffFile{Header: rapid.Bool().Draw(t, "header"), Width: rapid.OneOf(rapid.IntRange(1, 80), rapid.SampledFrom([]int{1, 60, 4096, math.MaxInt64, math.MaxInt32})).Draw(t, "width")}
	f.Route = GenRoute(t)
	n := rapid.IntRange(0, maxItems).Draw(t, "nitems")
	for i := 0; i < n; i++ {
		var it GffItem
		switch rapid.IntRange(0, 9).Draw(t, "item-kind") {
		case 0:
			it.Kind = "region"
			it.SeqName = genBlankFreeToken(t, "region-name")
			it.Start = rapid.IntRange(0, 100000).Draw(t, "region-start")
			if rapid.IntRange(0, 7).Draw(t, "region-negative") == 0 {
				it.Start = rapid.IntRange(-1000, -1).Draw(t, "region-start-negative")
			}
			it.End = it.Start + rapid.IntRange(1, 100000).Draw(t, "region-len")
			it.AttrsNil = rapid.Bool().Draw(t, "region-via-metadata") // written by WriteMetaData(*Feature) instead of Write(*Region)
		case 1:
			it.Kind = "type"
			it.Mol = rapid.SampledFrom(mols).Draw(t, "mol")
			if rapid.Bool().Draw(t, "type-named") {
				it.SeqName = genBlankFreeToken(t, "type-name")
			}
		case 2:
			it.Kind = "seq"
			it.Mol = rapid.SampledFrom(mols).Draw(t, "mol")
			it.SeqName = genBlankFreeToken(t, "seq-name")
			it.Len = 1 + GenSeqLen(t, f.Width, false)
			l := molAlphabet(it.Mol).Letters()
			it.Pat = genPat(t, strings.ToLower(l)+strings.ToUpper(l), it.Len)
			if it.Mol == "Protein" && f.Width >= 4 && f.Width <= 80 && rapid.IntRange(0, 3).Draw(t, "end-motif") == 2 {
				// residues that spell the start of the line that ends an inline sequence (E, N, D and the
				// gap letter), at the start of every written line: the pattern is one line long
				motif := rapid.SampledFrom([]string{"end-", "END-", "End-", "end-protein", "END-PROTEIN", "enD-Dna"}).Draw(t, "motif")
				if len(motif) > f.Width {
					motif = motif[:4]
				}
				it.Pat = motif
				for len(it.Pat) < f.Width {
					it.Pat += string(l[rapid.IntRange(0, len(l)-1).Draw(t, "motif-tail")])
				}
				it.Len = f.Width*rapid.IntRange(2, 4).Draw(t, "motif-lines") + rapid.IntRange(0, f.Width-1).Draw(t, "motif-rest")
			}
		case 3:
			switch rapid.IntRange(0, 3).Draw(t, "meta-kind") {
			case 0:
				// ##date line (written through WriteMetaData(time.Time), day precision)
				it.Kind = "date"
				it.Start = rapid.IntRange(1, 3000).Draw(t, "year")*10000 + rapid.IntRange(1, 12).Draw(t, "month")*100 + rapid.IntRange(1, 28).Draw(t, "day")
			case 1:
				// ##source-version line (written through WriteMetaData(string))
				it.Kind = "source-version"
				it.Text = genBlankFreeToken(t, "srcver-prog")
				if rapid.IntRange(0, 2).Draw(t, "srcver-words") > 0 {
					it.Text += " " + genBlankFreeToken(t, "srcver-ver")
				}
			default:
				it.Kind = "comment"
				if rapid.Bool().Draw(t, "comment-nonempty") {
					it.Text = genText(t, "comment", 1, 20, true)
				}
			}
		default:
			it.Kind = "feature"
			it.SeqName = genFieldText(t, "seqname")
			it.Source = genFieldText(t, "source")
			it.Feature = genFieldText(t, "feature")
			switch rapid.IntRange(0, 7).Draw(t, "start-class") {
			case 6:
				// negative zero-based starts are outside the documented GFF domain but are carried
				// through both conversions unchanged; the round trip must still hold for them
				it.Start = rapid.IntRange(-1000, -1).Draw(t, "start-negative")
			case 0:
				it.Start = 0
			case 1:
				it.Start = rapid.IntRange(0, math.MaxInt64-2).Draw(t, "start-any")
			default:
				it.Start = rapid.IntRange(0, 1000000).Draw(t, "start")
			}
			switch rapid.IntRange(0, 5).Draw(t, "len-class") {
			case 0:
				it.End = it.Start + 1
			case 1:
				it.End = rapid.IntRange(it.Start+1, math.MaxInt64).Draw(t, "end-any")
			default:
				it.End = it.Start + rapid.IntRange(1, 100000).Draw(t, "flen")
				if it.End < it.Start {
					it.End = math.MaxInt64
				}
			}
			if rapid.IntRange(0, 3).Draw(t, "has-score") > 0 {
				it.HasScore = true
				it.Score = genScoreBits(t)
			}
			it.Strand = int8(rapid.IntRange(-1, 1).Draw(t, "strand"))
			it.Frame = int8(rapid.IntRange(-1, 2).Draw(t, "frame"))
			switch rapid.IntRange(0, 4).Draw(t, "attr-class") {
			case 0:
				it.AttrsNil = true
			case 1: // empty, non-nil
			default:
				na := rapid.IntRange(1, 4).Draw(t, "nattrs")
				for j := 0; j < na; j++ {
					it.Attrs = append(it.Attrs, GffAttr{genTag(t), genAttrValue(t)})
				}
			}
			if rapid.IntRange(0, 2).Draw(t, "has-comments") == 0 {
				it.Comments = genText(t, "comments", 1, 15, false)
			}
			if rapid.IntRange(0, 29).Draw(t, "long-line") == 0 {
				// a feature line longer than any 4096-byte line buffer
				unit := genText(t, "long-unit", 3, 8, false) + " "
				n := rapid.SampledFrom([]int{4090, 4096, 5000, 9000}).Draw(t, "long-line-len")
				it.Comments = strings.Repeat(unit, n/len(unit)+1)[:n-1] + "x"
			}
		}
		f.Items = append(f.Items, it)
	}
	if rapid.IntRange(0, 5).Draw(t, "whole-scores") == 0 {
		f.WholeScores = true
		for i := range f.Items {
			if f.Items[i].HasScore {
				v := rapid.OneOf(rapid.SampledFrom([]float64{0, 1, -1, 1 << 53, 1<<53 + 2, 9223372036854775808, -9223372036854775808, 9.5e18, -9.9e18, 9.99e18, 1e19, 1.8446744073709552e19, 1e21, -1e25, 1e300}),
					rapid.Map(rapid.IntRange(-100000, 100000), func(i int) float64 { return float64(i) })).Draw(t, "whole-score")
				f.Items[i].Score = math.Float64bits(v)
			}
		}
	}
	return f
}

func (it GffItem) letters() string {
	return SeqRec{Pat: it.Pat, Len: it.Len}.Letters()
}

// date of a "date" item (stored as yyyymmdd in Start).
func (it GffItem) date() time.Time {
	return time.Date(it.Start/10000, time.Month(it.Start/100%100), it.Start%100, 0, 0, 0, 0, time.UTC)
}

func (it GffItem) feature() *gff.Feature {
	g := &gff.Feature{SeqName: it.SeqName, Source: it.Source, Feature: it.Feature, FeatStart: it.Start, FeatEnd: it.End,
		FeatStrand: seq.Strand(it.Strand), FeatFrame: gff.Frame(it.Frame), Comments: it.Comments}
	if it.HasScore {
		v := math.Float64frombits(it.Score)
		g.FeatScore = &v
	}
	if !it.AttrsNil {
		g.FeatAttributes = gff.Attributes{}
		for _, a := range it.Attrs {
			g.FeatAttributes = append(g.FeatAttributes, gff.Attribute{Tag: a.Tag, Value: a.Value})
		}
	}
	return g
}

func parseMol(m string) feat.Moltype { return feat.ParseMoltype(m) }

// WriteLib writes the file with gff.Writer, checking reported byte counts.
func (f GffFile) WriteLib() ([]byte, error) {
	var buf bytes.Buffer
	w := gff.NewWriter(&buf, f.Width, f.Header)
	if f.WholeScores {
		w.Precision = 0
	}
	for i, it := range f.Items {
		before := buf.Len()
		var n int
		var err error
		switch it.Kind {
		case "feature":
			n, err = w.Write(it.feature())
		case "region":
			if it.AttrsNil {
				n, err = w.WriteMetaData(&gff.Feature{SeqName: it.SeqName, FeatStart: it.Start, FeatEnd: it.End})
			} else {
				n, err = w.Write(&gff.Region{Sequence: gff.Sequence{SeqName: it.SeqName}, RegionStart: it.Start, RegionEnd: it.End})
			}
		case "date":
			n, err = w.WriteMetaData(it.date())
		case "source-version":
			n, err = w.WriteMetaData("source-version " + it.Text)
		case "type":
			if it.SeqName != "" {
				n, err = w.WriteMetaData(gff.Sequence{SeqName: it.SeqName, Type: parseMol(it.Mol)})
			} else {
				n, err = w.WriteMetaData(parseMol(it.Mol))
			}
		case "seq":
			s := linear.NewSeq(it.SeqName, alphabet.BytesToLetters([]byte(it.letters())), molAlphabet(it.Mol))
			s.Desc = it.Desc
			n, err = w.Write(s)
		case "comment":
			n, err = w.WriteComment(it.Text)
		}
		if err != nil {
			return nil, fmt.Errorf("write-error: item %d (%s): %v", i, it.Kind, err)
		}
		if n != buf.Len()-before {
			return nil, fmt.Errorf("byte-count: item %d (%s): Write returned %d, %d bytes were emitted", i, it.Kind, n, buf.Len()-before)
		}
	}
	return buf.Bytes(), nil
}

// CheckText verifies, independently of the reader, that every feature line
// carries 1-based inclusive coordinates (columns 4 and 5 are FeatStart+1 and
// FeatEnd) and that sequence-region lines do likewise.
func (f GffFile) CheckText(data []byte) error {
	var want []string
	for _, it := range f.Items {
		switch it.Kind {
		case "feature":
			want = append(want, fmt.Sprintf("F\t%d\t%d", oneBased(it.Start), it.End))
		case "region":
			want = append(want, fmt.Sprintf("R\t%d\t%d", oneBased(it.Start), it.End))
		}
	}
	var got []string
	inSeq := false
	for _, line := range strings.Split(string(data), "\n") {
		line = strings.TrimRight(line, "\r")
		switch {
		case strings.HasPrefix(line, "##sequence-region "):
			fs := strings.Split(line, " ")
			if len(fs) < 4 {
				return fmt.Errorf("text: short region line %q", line)
			}
			got = append(got, "R\t"+fs[2]+"\t"+fs[3])
		case strings.HasPrefix(line, "##end-"):
			inSeq = false
		case strings.HasPrefix(line, "##DNA ") || strings.HasPrefix(line, "##RNA ") || strings.HasPrefix(line, "##Protein "):
			inSeq = true
		case strings.HasPrefix(line, "#") || line == "" || inSeq:
		default:
			fs := strings.Split(line, "\t")
			if len(fs) < 8 {
				return fmt.Errorf("text: feature line with %d columns: %q", len(fs), line)
			}
			got = append(got, "F\t"+fs[3]+"\t"+fs[4])
		}
	}
	if len(got) != len(want) {
		return fmt.Errorf("text: %d coordinate lines emitted, want %d", len(got), len(want))
	}
	for i := range want {
		if got[i] != want[i] {
			return fmt.Errorf("text-coordinates: line %d carries %q, want 1-based inclusive %q", i, got[i], want[i])
		}
	}
	return nil
}

// oneBased is the 1-based inclusive start of a zero-based start; negative
// positions (outside the documented domain) are carried unchanged by both
// conversion functions.
func oneBased(start int) int {
	if start >= 0 {
		return start + 1
	}
	return start
}

// Text renders the file independently of the library writer.
func (f GffFile) Text(eol string, finalEOL bool) []byte {
	var lines []string
	if f.Header {
		lines = append(lines, "##gff-version 2")
	}
	for _, it := range f.Items {
		switch it.Kind {
		case "feature":
			score := "."
			if it.HasScore {
				score = strconv.FormatFloat(math.Float64frombits(it.Score), 'g', -1, 64)
				if f.WholeScores {
					score = strconv.FormatFloat(math.Float64frombits(it.Score), 'f', 0, 64)
				}
			}
			frame := "."
			if it.Frame >= 0 {
				frame = strconv.Itoa(int(it.Frame))
			}
			cols := []string{it.SeqName, it.Source, it.Feature, strconv.Itoa(oneBased(it.Start)), strconv.Itoa(it.End), score, seq.Strand(it.Strand).String(), frame}
			var at []string
			for _, a := range it.Attrs {
				at = append(at, a.Tag+" "+a.Value)
			}
			switch {
			case len(at) > 0 || it.Comments != "":
				cols = append(cols, strings.Join(at, "; "))
			}
			if it.Comments != "" {
				cols = append(cols, it.Comments)
			}
			lines = append(lines, strings.Join(cols, "\t"))
		case "region":
			lines = append(lines, fmt.Sprintf("##sequence-region %s %d %d", it.SeqName, oneBased(it.Start), it.End))
		case "type":
			if it.SeqName != "" {
				lines = append(lines, "##Type "+it.Mol+" "+it.SeqName)
			} else {
				lines = append(lines, "##Type "+it.Mol)
			}
		case "seq":
			lines = append(lines, "##"+it.Mol+" "+it.SeqName)
			l := it.letters()
			for i := 0; i < len(l); {
				e := len(l)
				if f.Width < e-i {
					e = i + f.Width
				}
				lines = append(lines, "##"+l[i:e])
				i = e
			}
			lines = append(lines, "##end-"+it.Mol)
		case "comment":
			lines = append(lines, "# "+it.Text)
		case "date":
			lines = append(lines, fmt.Sprintf("##date %04d-%d-%02d", it.Start/10000, it.Start/100%100, it.Start%100))
		case "source-version":
			lines = append(lines, "##source-version "+it.Text)
		}
	}
	var b bytes.Buffer
	for i, l := range lines {
		b.WriteString(l)
		if i < len(lines)-1 || finalEOL {
			b.WriteString(eol)
		}
	}
	return b.Bytes()
}

// ReadCompare parses data with gff.Reader and compares with the items.
func (f GffFile) ReadCompare(data []byte) error {
	r := gff.NewReader(Source(data, f.Route))
	all, rerr := readAllFeat(r, f.Route, len(data)+2)
	if rerr != nil {
		return rerr
	}
	curType := feat.Undefined
	idx := 0
	var wantDate time.Time
	var wantSrc string
	haveDate, haveSrc := false, false
	defer func() { _, _, _, _ = wantDate, wantSrc, haveDate, haveSrc }()
	next := func() (feat.Feature, error) {
		if idx >= len(all) {
			return nil, io.EOF
		}
		return all[idx], nil
	}
	for i, it := range f.Items {
		switch it.Kind {
		case "comment":
			continue
		case "date":
			wantDate = it.date()
			haveDate = true
			continue
		case "source-version":
			wantSrc = it.Text
			haveSrc = true
			continue
		case "type":
			curType = parseMol(it.Mol)
			continue
		}
		got, err := next()
		if err == io.EOF {
			return fmt.Errorf("record-count: io.EOF after %d of the parseable items (item %d, %s, missing)", idx, i, it.Kind)
		}
		if err != nil {
			return fmt.Errorf("read-error: item %d (%s): %v", i, it.Kind, err)
		}
		idx++
		switch it.Kind {
		case "feature":
			g, ok := got.(*gff.Feature)
			if !ok {
				return fmt.Errorf("field: item %d: got %T want *gff.Feature", i, got)
			}
			if err := gffEqual(g, it); err != nil {
				return fmt.Errorf("field: item %d: %v", i, err)
			}
		case "region":
			g, ok := got.(*gff.Region)
			if !ok {
				return fmt.Errorf("field: item %d: got %T want *gff.Region", i, got)
			}
			if g.SeqName != it.SeqName || g.RegionStart != it.Start || g.RegionEnd != it.End || g.Start() != it.Start || g.End() != it.End || g.Len() != it.End-it.Start {
				return fmt.Errorf("region: item %d: got %q [%d,%d) want %q [%d,%d)", i, g.SeqName, g.RegionStart, g.RegionEnd, it.SeqName, it.Start, it.End)
			}
			if g.Type != curType {
				return fmt.Errorf("region: item %d: type %v want %v (what a preceding ##Type line declared; undefined without one)", i, g.Type, curType)
			}
		case "seq":
			g, ok := got.(*linear.Seq)
			if !ok {
				return fmt.Errorf("field: item %d: got %T want *linear.Seq", i, got)
			}
			if g.ID != it.SeqName {
				return fmt.Errorf("inline-seq: item %d: name %q want %q", i, g.ID, it.SeqName)
			}
			if l := string(alphabet.LettersToBytes(g.Seq)); l != it.letters() {
				return fmt.Errorf("inline-seq: item %d: %d letters %s want %d letters %s", i, len(l), clip(l), it.Len, clip(it.letters()))
			}
			if g.Alphabet() != molAlphabet(it.Mol) {
				return fmt.Errorf("inline-seq: item %d: wrong alphabet for %s", i, it.Mol)
			}
		}
	}
	got, err := next()
	if err != io.EOF {
		return fmt.Errorf("record-count: expected io.EOF after %d items, got %v, %v", idx, got, err)
	}
	// the reader's view of the metadata lines it consumed on the way
	if haveDate && !r.Date.Equal(wantDate) {
		return fmt.Errorf("metadata: reader holds date %v after the file, the last ##date line says %v", r.Date, wantDate)
	}
	if haveSrc && r.SourceVersion != wantSrc {
		return fmt.Errorf("metadata: reader holds source version %q, the last ##source-version line says %q", r.SourceVersion, wantSrc)
	}
	return nil
}

func gffEqual(g *gff.Feature, it GffItem) error {
	if g.SeqName != it.SeqName || g.Source != it.Source || g.Feature != it.Feature {
		return fmt.Errorf("text columns: got %q %q %q want %q %q %q", g.SeqName, g.Source, g.Feature, it.SeqName, it.Source, it.Feature)
	}
	if g.FeatStart != it.Start || g.FeatEnd != it.End || g.Start() != it.Start || g.End() != it.End || g.Len() != it.End-it.Start {
		return fmt.Errorf("coordinates: got [%d,%d) Start/End/Len %d/%d/%d want [%d,%d)", g.FeatStart, g.FeatEnd, g.Start(), g.End(), g.Len(), it.Start, it.End)
	}
	switch {
	case it.HasScore && g.FeatScore == nil:
		return fmt.Errorf("score: got nil want %v", math.Float64frombits(it.Score))
	case !it.HasScore && g.FeatScore != nil:
		return fmt.Errorf("score: got %v want nil", *g.FeatScore)
	case it.HasScore && math.Float64bits(*g.FeatScore) != it.Score:
		return fmt.Errorf("score: got %v want %v", *g.FeatScore, math.Float64frombits(it.Score))
	}
	if int8(g.FeatStrand) != it.Strand {
		return fmt.Errorf("strand: got %v want %v", g.FeatStrand, it.Strand)
	}
	if int8(g.FeatFrame) != it.Frame {
		return fmt.Errorf("frame: got %v want %v", g.FeatFrame, it.Frame)
	}
	if len(g.FeatAttributes) != len(it.Attrs) {
		return fmt.Errorf("attributes: got %d %v want %d %v", len(g.FeatAttributes), g.FeatAttributes, len(it.Attrs), it.Attrs)
	}
	for i, a := range it.Attrs {
		if g.FeatAttributes[i].Tag != a.Tag || g.FeatAttributes[i].Value != a.Value {
			return fmt.Errorf("attributes: %d: got %q=%q want %q=%q", i, g.FeatAttributes[i].Tag, g.FeatAttributes[i].Value, a.Tag, a.Value)
		}
	}
	if g.Comments != it.Comments {
		return fmt.Errorf("comments: got %q want %q", g.Comments, it.Comments)
	}
	return nil
}
