// Package iogen holds the generators, library adapters and comparison
// functions shared by the I/O properties C01–C04. Cases are plain data.
package iogen

import (
	"bytes"
	"fmt"
	"io"
	"math"
	"strings"
	"testing/iotest"

	"github.com/biogo/biogo/alphabet"
	"github.com/biogo/biogo/io/seqio"
	"github.com/biogo/biogo/io/seqio/fasta"
	"github.com/biogo/biogo/io/seqio/fastq"
	"github.com/biogo/biogo/seq"
	"github.com/biogo/biogo/seq/linear"
	"pgregory.net/rapid"
)

// SeqRec is one sequence record. Letters are Pat repeated/truncated to Len so
// that long sequences stay cheap to draw and small in JSON; Quals likewise.
type SeqRec struct {
	Name string `json:"name"`
	Desc string `json:"desc"`
	Pat  string `json:"pat"`
	Len  int    `json:"len"`
	QPat []int  `json:"qpat,omitempty"`
}

// Letters expands the record's letters.
func (r SeqRec) Letters() string {
	if r.Len == 0 || len(r.Pat) == 0 {
		return ""
	}
	var b strings.Builder
	b.Grow(r.Len)
	for b.Len() < r.Len {
		b.WriteString(r.Pat)
	}
	return b.String()[:r.Len]
}

// Quals expands the record's quality scores (nil when QPat is empty).
func (r SeqRec) Quals() []int {
	if len(r.QPat) == 0 {
		return nil
	}
	q := make([]int, r.Len)
	for i := range q {
		q[i] = r.QPat[i%len(r.QPat)]
	}
	return q
}

// SeqFile is a FASTA or FASTQ file as records plus writer/reader configuration.
type SeqFile struct {
	Format string `json:"format"` // "fasta" | "fastq"
	Alpha  string `json:"alpha"`
	Width  int    `json:"width,omitempty"`
	QID    bool   `json:"qid,omitempty"`
	Enc    int8   `json:"enc"`
	WriteQ bool   `json:"write_qseq"`      // values handed to the writer are *linear.QSeq
	ReadQ  bool   `json:"read_qseq"`       // reader template is *linear.QSeq
	Route  int    `json:"route,omitempty"` // how the reader is driven, see Source / GenRoute
	// TmplCap > 0: the reader's template is empty but owns a buffer of that many letters (a caller that
	// pre-allocated it, or emptied a used sequence with Seq[:0])
	TmplCap int      `json:"tmpl_cap,omitempty"`
	Recs    []SeqRec `json:"recs"`
}

// Route values: bit 0 set = records are pulled through the package's Scanner
// (Next/Seq/Error) instead of calling Read directly; bits 1-2 select the
// io.Reader the bytes come from (0 bytes.Reader, 1 one byte per Read call,
// 2 final data delivered together with io.EOF, 3 half of the requested bytes
// per call). None of them may change what is parsed.
func GenRoute(t *rapid.T) int {
	if rapid.IntRange(0, 2).Draw(t, "route-plain") == 0 {
		return 0
	}
	return rapid.IntRange(0, 7).Draw(t, "route")
}

// Source wraps data in the io.Reader selected by route.
func Source(data []byte, route int) io.Reader {
	var r io.Reader = bytes.NewReader(data)
	switch (route >> 1) & 3 {
	case 1:
		if len(data) <= 30000 { // one-byte reads are slow on long files
			return iotest.OneByteReader(r)
		}
	case 2:
		return iotest.DataErrReader(r)
	case 3:
		return iotest.HalfReader(r)
	}
	return r
}

// RouteClasses labels a route for the histograms.
func RouteClasses(route int) []string {
	var l []string
	if route&1 != 0 {
		l = append(l, "via-scanner")
	}
	if (route>>1)&3 != 0 {
		l = append(l, "awkward-io-reader")
	}
	return l
}

// AlphabetByName maps a case's alphabet name to the library alphabet.
func AlphabetByName(n string) alphabet.Alphabet {
	switch n {
	case "DNA":
		return alphabet.DNA
	case "DNAgapped":
		return alphabet.DNAgapped
	case "DNAredundant":
		return alphabet.DNAredundant
	case "RNA":
		return alphabet.RNA
	case "RNAgapped":
		return alphabet.RNAgapped
	case "RNAredundant":
		return alphabet.RNAredundant
	case "Protein":
		return alphabet.Protein
	}
	panic("unknown alphabet " + n)
}

// LetterPool returns the letters (both cases) a record over the named alphabet may use.
func LetterPool(n string) string {
	l := AlphabetByName(n).Letters()
	return strings.ToLower(l) + strings.ToUpper(l)
}

// PhredRange gives the printable score range of a Phred-offset encoding.
func PhredRange(e alphabet.Encoding) (lo, hi int) {
	switch e {
	case alphabet.Sanger, alphabet.Illumina1_8, alphabet.Illumina1_9:
		return 0, 93
	case alphabet.Illumina1_3:
		return 0, 62
	case alphabet.Illumina1_5:
		return 2, 62
	}
	panic("not a phred encoding")
}

// PhredOffset is 33 or 64.
func PhredOffset(e alphabet.Encoding) int {
	switch e {
	case alphabet.Illumina1_3, alphabet.Illumina1_5:
		return 64
	}
	return 33
}

var PhredEncodings = []alphabet.Encoding{alphabet.Sanger, alphabet.Illumina1_3, alphabet.Illumina1_5, alphabet.Illumina1_8, alphabet.Illumina1_9}

const specials = ">@+#;|:=,.~!*-_/\\'\"`^$%&()[]{}<?"

// keywords are words that mean something to one of the formats when they
// stand at the start of a line (BED/UCSC header lines, GFF directives, record
// markers). As ordinary field text they are as valid as any other word.
var keywords = []string{"track", "browser", "tracking_7", "browserContig", "Track", "chr", "gff-version", "sequence-region", "DNA", "RNA", "Protein",
	"end-DNA", "date", "Type", "source-version", "EOF", "nan", "NULL", "seq", "id"}

// genKeyword returns a keyword in about one case of twelve, "" otherwise.
func genKeyword(t *rapid.T, label string) string {
	if rapid.IntRange(0, 11).Draw(t, label+"-kw") != 0 {
		return ""
	}
	return rapid.SampledFrom(keywords).Draw(t, label+"-kwv")
}

func genToken(t *rapid.T, label string, min, max int) string {
	if kw := genKeyword(t, label); kw != "" && max >= 1 {
		return kw
	}
	n := rapid.IntRange(min, max).Draw(t, label+"-len")
	b := make([]byte, n)
	for i := range b {
		if rapid.IntRange(0, 3).Draw(t, label+"-sp") == 0 {
			b[i] = specials[rapid.IntRange(0, len(specials)-1).Draw(t, label+"-c")]
		} else {
			b[i] = byte(rapid.IntRange(33, 126).Draw(t, label+"-c"))
		}
	}
	return string(b)
}

// genText draws a single-line trimmed text (printable ASCII with inner blanks/tabs).
func genText(t *rapid.T, label string, min, max int, tabs bool) string {
	n := rapid.IntRange(min, max).Draw(t, label+"-len")
	b := make([]byte, n)
	for i := range b {
		inner := i > 0 && i < n-1
		k := rapid.IntRange(0, 9).Draw(t, label+"-k")
		switch {
		case inner && k == 0:
			b[i] = ' '
		case inner && k == 1 && tabs:
			b[i] = '\t'
		case k == 2:
			b[i] = specials[rapid.IntRange(0, len(specials)-1).Draw(t, label+"-c")]
		default:
			b[i] = byte(rapid.IntRange(33, 126).Draw(t, label+"-c"))
		}
	}
	return string(b)
}

// GenSeqLen draws a sequence length from a mixture that includes the
// boundaries the readers and writers care about (line width, the 4096-byte
// bufio buffer and its multiples). Long lengths are rationed by the caller.
func GenSeqLen(t *rapid.T, width int, allowLong bool) int {
	k := rapid.IntRange(0, 19).Draw(t, "len-class")
	switch {
	case k == 0:
		return 0
	case k == 1:
		return 1
	case k <= 4 && width > 0:
		w := width
		if w > 300 && !allowLong || w > 20000 {
			w = 60
		}
		return max0(w + rapid.IntRange(-1, 1).Draw(t, "len-w"))
	case k == 5 && width > 0 && width < 200:
		return width*rapid.IntRange(2, 3).Draw(t, "len-wmul") + rapid.IntRange(-1, 1).Draw(t, "len-w")
	case k == 6 && allowLong:
		return 4096*rapid.IntRange(1, 2).Draw(t, "len-4096mul") + rapid.IntRange(-2, 2).Draw(t, "len-4096")
	case k == 7 && allowLong:
		return rapid.IntRange(8193, 20000).Draw(t, "len-long")
	default:
		return rapid.IntRange(2, 80).Draw(t, "len-small")
	}
}

func max0(i int) int {
	if i < 0 {
		return 0
	}
	return i
}

func genPat(t *rapid.T, pool string, n int) string {
	if n == 0 {
		return ""
	}
	pl := n
	if pl > 17 {
		pl = rapid.SampledFrom([]int{1, 2, 7, 13, 17}).Draw(t, "patlen")
	}
	b := make([]byte, pl)
	for i := range b {
		b[i] = pool[rapid.IntRange(0, len(pool)-1).Draw(t, "letter")]
	}
	return string(b)
}

func genQPat(t *rapid.T, e alphabet.Encoding, n int) []int {
	if n == 0 {
		return nil
	}
	lo, hi := PhredRange(e)
	off := PhredOffset(e)
	pl := n
	if pl > 19 {
		pl = rapid.SampledFrom([]int{1, 3, 11, 19}).Draw(t, "qpatlen")
	}
	q := make([]int, pl)
	for i := range q {
		switch rapid.IntRange(0, 7).Draw(t, "qclass") {
		case 0:
			q[i] = lo
		case 1:
			q[i] = hi
		case 2:
			// scores whose byte is '@' or '+' (so that quality lines can begin with them)
			c := int(rapid.SampledFrom([]byte{'@', '+'}).Draw(t, "qspecial")) - off
			if c < lo || c > hi {
				c = lo
			}
			q[i] = c
		default:
			q[i] = rapid.IntRange(lo, hi).Draw(t, "q")
		}
	}
	return q
}

// GenSeqFile draws a FASTA or FASTQ case.
func GenSeqFile(t *rapid.T, format string, maxRecs int, allowLong bool) SeqFile {
	f := SeqFile{Format: format}
	f.Alpha = rapid.SampledFrom([]string{"DNA", "DNAredundant", "RNA", "Protein", "DNAgapped"}).Draw(t, "alpha")
	f.WriteQ = rapid.Bool().Draw(t, "write-qseq")
	f.ReadQ = rapid.Bool().Draw(t, "read-qseq")
	f.Route = GenRoute(t)
	if rapid.IntRange(0, 3).Draw(t, "template-with-buffer") == 0 {
		f.TmplCap = rapid.SampledFrom([]int{8, 64, 1024, 70000}).Draw(t, "template-cap")
	}
	f.Enc = int8(alphabet.Sanger)
	if format == "fasta" {
		f.Width = rapid.OneOf(rapid.IntRange(1, 200), rapid.SampledFrom([]int{1, 2, 60, 80, 4095, 4096, 4097, 5000, 10000}),
			// "never wrap": any positive width is a width, up to the largest int
			rapid.SampledFrom([]int{math.MaxInt64, math.MaxInt64 - 1, math.MaxInt64 - 7, 1 << 62, math.MaxInt32, 1 << 31, 1<<32 + 1})).Draw(t, "width")
	} else {
		f.QID = rapid.Bool().Draw(t, "qid")
		f.Enc = int8(rapid.SampledFrom(PhredEncodings).Draw(t, "enc"))
		if !f.WriteQ {
			// a plain Seq is written with the default score under Sanger
			f.Enc = int8(alphabet.Sanger)
		}
	}
	pool := LetterPool(f.Alpha)
	n := rapid.IntRange(0, maxRecs).Draw(t, "nrecs")
	// many short reads: dozens of records of 40..200 letters, several thousand letters in all (a
	// reader that recycles the storage of earlier records has to hand some of it out again)
	manyShort := allowLong && rapid.IntRange(0, 19).Draw(t, "many-short-reads") == 7
	if manyShort {
		n = rapid.IntRange(30, 50).Draw(t, "nrecs-many")
	}
	// reads of a few hundred letters in no particular order of length: 6..12 records of 256..1200
	// letters (a writer or reader that keeps a line buffer between records meets a shorter line
	// after a longer one)
	variedLong := allowLong && !manyShort && rapid.IntRange(0, 19).Draw(t, "varied-long-reads") == 11
	if variedLong {
		n = rapid.IntRange(6, 12).Draw(t, "nrecs-varied")
	}
	longBudget := 1
	if allowLong && maxRecs > 10 {
		longBudget = 3
	}
	// one case in sixty carries a sequence of more than 64 KiB (beyond the token limit of a
	// bufio.Scanner and of every other fixed-size line buffer), for FASTA usually on one line
	giant := allowLong && rapid.IntRange(0, 59).Draw(t, "giant-sequence") == 23
	for i := 0; i < n; i++ {
		var r SeqRec
		r.Name = genToken(t, "name", 0, 12)
		if rapid.IntRange(0, 2).Draw(t, "has-desc") > 0 {
			r.Desc = genText(t, "desc", 1, 30, true)
		}
		if allowLong && longBudget > 0 && rapid.IntRange(0, 24).Draw(t, "long-header") == 0 {
			// a header line around the readers' 4096-byte line buffer (and twice that)
			n := rapid.SampledFrom([]int{4080, 4090, 4094, 4095, 4096, 4097, 4100, 8190, 8192, 8200}).Draw(t, "long-header-len")
			unit := genText(t, "desc-unit", 3, 9, false) + " "
			r.Desc = strings.Repeat(unit, n/len(unit)+1)[:n-1] + "x"
			longBudget--
		}
		r.Len = GenSeqLen(t, f.Width, allowLong && longBudget > 0)
		if manyShort {
			r.Len = rapid.IntRange(100, 250).Draw(t, "short-read-len")
		}
		if variedLong {
			r.Len = rapid.IntRange(256, 1200).Draw(t, "varied-read-len")
		}
		if giant && i == n/2 {
			r.Len = rapid.SampledFrom([]int{65535, 65536, 65537, 70000, 131072, 140001}).Draw(t, "giant-len")
			if format == "fasta" && rapid.IntRange(0, 2).Draw(t, "giant-one-line") > 0 {
				f.Width = r.Len + rapid.IntRange(0, 1).Draw(t, "giant-width-slack")
			}
		}
		if r.Len > 1000 {
			longBudget--
		}
		r.Pat = genPat(t, pool, r.Len)
		if f.WriteQ {
			r.QPat = genQPat(t, alphabet.Encoding(f.Enc), r.Len)
		}
		f.Recs = append(f.Recs, r)
	}
	return f
}

// countingWriter records the number of bytes actually emitted.
type countingWriter struct {
	bytes.Buffer
}

// Value builds the library sequence value for a record.
func (f SeqFile) Value(r SeqRec) seq.Sequence {
	alpha := AlphabetByName(f.Alpha)
	letters := r.Letters()
	if f.WriteQ {
		ql := make([]alphabet.QLetter, len(letters))
		qs := r.Quals()
		for i := range ql {
			ql[i].L = alphabet.Letter(letters[i])
			if qs != nil {
				ql[i].Q = alphabet.Qphred(qs[i])
			}
		}
		s := linear.NewQSeq(r.Name, ql, alpha, alphabet.Encoding(f.Enc))
		s.Desc = r.Desc
		return s
	}
	s := linear.NewSeq(r.Name, alphabet.BytesToLetters([]byte(letters)), alpha)
	s.Desc = r.Desc
	return s
}

// WriteLib writes the records with the library writer and checks the byte
// counts it reports.
func (f SeqFile) WriteLib() ([]byte, error) {
	var buf bytes.Buffer
	var w seqio.Writer
	if f.Format == "fasta" {
		w = fasta.NewWriter(&buf, f.Width)
	} else {
		fw := fastq.NewWriter(&buf)
		fw.QID = f.QID
		w = fw
	}
	total := 0
	for i, r := range f.Recs {
		before := buf.Len()
		n, err := w.Write(f.Value(r))
		if err != nil {
			return nil, fmt.Errorf("write-error: record %d: %v", i, err)
		}
		if n != buf.Len()-before {
			return nil, fmt.Errorf("byte-count: record %d: Write returned %d, %d bytes were emitted", i, n, buf.Len()-before)
		}
		total += n
	}
	if total != buf.Len() {
		return nil, fmt.Errorf("byte-count: sum of counts %d != %d bytes emitted", total, buf.Len())
	}
	return buf.Bytes(), nil
}

// ReadRec is what a reader gave back for one record.
type ReadRec struct {
	Name, Desc, Letters string
	Quals               []int // nil for a plain template
}

// Template returns the reader template for the case.
func (f SeqFile) Template() seqio.SequenceAppender {
	alpha := AlphabetByName(f.Alpha)
	if f.ReadQ {
		q := linear.NewQSeq("", nil, alpha, alphabet.Encoding(f.Enc))
		if f.TmplCap > 0 {
			q.Seq = make(alphabet.QLetters, 0, f.TmplCap)
		}
		return q
	}
	l := linear.NewSeq("", nil, alpha)
	if f.TmplCap > 0 {
		l.Seq = make(alphabet.Letters, 0, f.TmplCap)
	}
	return l
}

// ReadLib parses data with the matching library reader until io.EOF. Every
// returned sequence is kept until the end of the file and only then looked at,
// so a reader that hands out storage it goes on to reuse for later records is
// seen as wrong letters in the earlier ones.
func (f SeqFile) ReadLib(data []byte) ([]ReadRec, error) {
	var r seqio.Reader
	tmpl := f.Template()
	if f.Format == "fasta" {
		r = fasta.NewReader(Source(data, f.Route), tmpl)
	} else {
		r = fastq.NewReader(Source(data, f.Route), tmpl)
	}
	var seqs []seq.Sequence
	conv := func() []ReadRec {
		var out []ReadRec
		for _, s := range seqs {
			out = append(out, toReadRec(s))
		}
		return out
	}
	if f.Route&1 != 0 {
		sc := seqio.NewScanner(r)
		for i := 0; sc.Next(); i++ {
			s := sc.Seq()
			if s == nil {
				return conv(), fmt.Errorf("read: Scanner.Next true with a nil sequence after %d records", len(seqs))
			}
			seqs = append(seqs, s)
			if i > len(data)+2 {
				return conv(), fmt.Errorf("read: no EOF after %d calls", i)
			}
		}
		if err := sc.Error(); err != nil {
			return conv(), fmt.Errorf("read-error: after %d records: %v", len(seqs), err)
		}
		if sc.Next() {
			return conv(), fmt.Errorf("read: Scanner.Next true again after it returned false")
		}
	} else {
		for i := 0; ; i++ {
			s, err := r.Read()
			if err == io.EOF {
				if s != nil {
					return conv(), fmt.Errorf("read: record together with io.EOF")
				}
				break
			}
			if err != nil {
				return conv(), fmt.Errorf("read-error: after %d records: %v", len(seqs), err)
			}
			if s == nil {
				return conv(), fmt.Errorf("read: (nil, nil) after %d records", len(seqs))
			}
			seqs = append(seqs, s)
			if i > len(data)+2 {
				return conv(), fmt.Errorf("read: no EOF after %d calls", i)
			}
		}
	}
	for i, s := range seqs {
		if s == seq.Sequence(tmpl.(seq.Sequence)) {
			return conv(), fmt.Errorf("read: record %d is the reader's template itself", i)
		}
	}
	if tmpl.(seq.Sequence).Len() != 0 {
		return conv(), fmt.Errorf("read: the reader's template was written to (%d letters)", tmpl.(seq.Sequence).Len())
	}
	return conv(), nil
}

func toReadRec(s seq.Sequence) ReadRec {
	switch s := s.(type) {
	case *linear.Seq:
		return ReadRec{Name: s.ID, Desc: s.Desc, Letters: string(alphabet.LettersToBytes(s.Seq))}
	case *linear.QSeq:
		r := ReadRec{Name: s.ID, Desc: s.Desc, Quals: []int{}}
		b := make([]byte, len(s.Seq))
		for i, ql := range s.Seq {
			b[i] = byte(ql.L)
			r.Quals = append(r.Quals, int(ql.Q))
		}
		r.Letters = string(b)
		return r
	}
	panic(fmt.Sprintf("unexpected sequence type %T", s))
}

// ExpectedQuals gives the scores a QSeq template should see for record r, or
// nil when they are not determined by the statement.
func (f SeqFile) ExpectedQuals(r SeqRec) []int {
	if !f.ReadQ {
		return nil
	}
	q := make([]int, r.Len)
	switch {
	case f.Format == "fasta":
		for i := range q {
			q[i] = int(seq.DefaultQphred) // AppendLetters documents the default score
		}
	case f.WriteQ:
		copy(q, r.Quals())
	default:
		for i := range q {
			q[i] = int(seq.DefaultQphred)
		}
	}
	return q
}

// Compare checks the parsed records against the generating ones.
func (f SeqFile) Compare(got []ReadRec) error {
	if len(got) != len(f.Recs) {
		return fmt.Errorf("record-count: wrote %d records, read %d", len(f.Recs), len(got))
	}
	for i, r := range f.Recs {
		g := got[i]
		if g.Name != r.Name {
			return fmt.Errorf("name: record %d: got %q want %q", i, g.Name, r.Name)
		}
		if g.Desc != r.Desc {
			return fmt.Errorf("description: record %d: got %q want %q", i, g.Desc, r.Desc)
		}
		if want := r.Letters(); g.Letters != want {
			return fmt.Errorf("letters: record %d (%q): got %d letters %s, want %d letters %s", i, r.Name, len(g.Letters), clip(g.Letters), len(want), clip(want))
		}
		if want := f.ExpectedQuals(r); want != nil {
			if len(g.Quals) != len(want) {
				return fmt.Errorf("quality: record %d: got %d scores want %d", i, len(g.Quals), len(want))
			}
			for j := range want {
				if g.Quals[j] != want[j] {
					return fmt.Errorf("quality: record %d position %d: got %d want %d", i, j, g.Quals[j], want[j])
				}
			}
		}
	}
	return nil
}

func clip(s string) string {
	if len(s) > 40 {
		return fmt.Sprintf("%q…", s[:40])
	}
	return fmt.Sprintf("%q", s)
}

// ErrKind extracts the failure kind from an error produced in this package
// ("kind: detail").
func ErrKind(err error) (string, string) {
	s := err.Error()
	if i := strings.Index(s, ": "); i > 0 && i < 24 {
		return s[:i], s[i+2:]
	}
	return "error", s
}

// Layout describes how a file is physically laid out (C04).
type Layout struct {
	CRLF        bool  `json:"crlf,omitempty"`
	NoFinalEOL  bool  `json:"no_final_eol,omitempty"`
	Wrap        []int `json:"wrap,omitempty"`         // fasta: per-record line width (cyclic)
	Blank       []int `json:"blank,omitempty"`        // cyclic: number of blank lines inserted after line i (fasta: any line; fastq: after each record)
	Trail       []int `json:"trail,omitempty"`        // cyclic: trailing whitespace selector per line (0 none, 1 ' ', 2 '\t', 3 "  \t")
	BlankIsSpcs bool  `json:"blank_spaces,omitempty"` // blank lines consist of blanks rather than being empty
	Lead        int   `json:"lead,omitempty"`         // fasta: blank lines in front of the first header
}

var trailers = []string{"", " ", "\t", "  \t "}

func (l Layout) eol() string {
	if l.CRLF {
		return "\r\n"
	}
	return "\n"
}

func pick(a []int, i int) int {
	if len(a) == 0 {
		return 0
	}
	return a[i%len(a)]
}

// Render lays the records out according to l, independently of the library's
// writers. The result is a valid file for the format with the same records.
func (f SeqFile) Render(l Layout) []byte {
	var lines []string
	var blanksAfter []int // parallel to lines
	lineNo := 0
	add := func(s string, blankAllowed bool) {
		s += trailers[pick(l.Trail, lineNo)%len(trailers)]
		lines = append(lines, s)
		b := 0
		if blankAllowed {
			b = pick(l.Blank, lineNo)
		}
		blanksAfter = append(blanksAfter, b)
		lineNo++
	}
	for ri, r := range f.Recs {
		hdr := r.Name
		if r.Desc != "" {
			hdr += " " + r.Desc
		}
		letters := r.Letters()
		if f.Format == "fasta" {
			add(">"+hdr, true)
			w := pick(l.Wrap, ri)
			if w <= 0 {
				w = f.Width
			}
			for i := 0; i < len(letters); {
				e := len(letters)
				if w < e-i {
					e = i + w
				}
				add(letters[i:e], true)
				i = e
			}
		} else {
			qs := f.qualString(r)
			add("@"+hdr, false)
			add(letters, false)
			if f.QID {
				add("+"+hdr, false)
			} else {
				add("+", false)
			}
			add(qs, true)
		}
	}
	var b bytes.Buffer
	eol := l.eol()
	blank := ""
	if l.BlankIsSpcs {
		blank = " \t"
	}
	if f.Format == "fasta" && len(lines) > 0 {
		for j := 0; j < l.Lead; j++ {
			b.WriteString(blank)
			b.WriteString(eol)
		}
	}
	for i, s := range lines {
		b.WriteString(s)
		last := i == len(lines)-1
		if last && l.NoFinalEOL && blanksAfter[i] == 0 {
			break
		}
		b.WriteString(eol)
		for j := 0; j < blanksAfter[i]; j++ {
			b.WriteString(blank)
			if last && l.NoFinalEOL && j == blanksAfter[i]-1 {
				break
			}
			b.WriteString(eol)
		}
	}
	return b.Bytes()
}

func (f SeqFile) qualString(r SeqRec) string {
	e := alphabet.Encoding(f.Enc)
	off := PhredOffset(e)
	b := make([]byte, r.Len)
	qs := r.Quals()
	for i := range b {
		q := int(seq.DefaultQphred)
		if f.WriteQ && qs != nil {
			q = qs[i]
		}
		b[i] = byte(q + off)
	}
	return string(b)
}

// GenLayout draws a layout for C04.
func GenLayout(t *rapid.T, format string, allowLong bool) Layout {
	var l Layout
	l.CRLF = rapid.Bool().Draw(t, "crlf")
	l.NoFinalEOL = rapid.Bool().Draw(t, "no-final-eol")
	if format == "fasta" {
		n := rapid.IntRange(0, 3).Draw(t, "nwrap")
		for i := 0; i < n; i++ {
			gens := []*rapid.Generator[int]{rapid.IntRange(1, 100), rapid.SampledFrom([]int{1, 60, 4095, 4096, 4097})}
			if allowLong {
				gens = append(gens, rapid.SampledFrom([]int{8192, 20000, 200000}))
			}
			l.Wrap = append(l.Wrap, rapid.OneOf(gens...).Draw(t, "wrap"))
		}
	}
	if rapid.Bool().Draw(t, "blanks") {
		n := rapid.IntRange(1, 5).Draw(t, "nblank")
		for i := 0; i < n; i++ {
			l.Blank = append(l.Blank, rapid.SampledFrom([]int{0, 0, 1, 2}).Draw(t, "blank"))
		}
		l.BlankIsSpcs = rapid.Bool().Draw(t, "blank-spaces")
		l.Lead = rapid.SampledFrom([]int{0, 0, 1, 2}).Draw(t, "leading-blank-lines")
	}
	if rapid.Bool().Draw(t, "trailing") {
		n := rapid.IntRange(1, 5).Draw(t, "ntrail")
		for i := 0; i < n; i++ {
			l.Trail = append(l.Trail, rapid.IntRange(0, 3).Draw(t, "trail"))
		}
	}
	return l
}
