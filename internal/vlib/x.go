package vlib
import _ "pgregory.net/rapid"
import _ "github.com/biogo/biogo/alphabet"
