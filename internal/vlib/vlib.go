// Package vlib is the small runtime shared by every property package under
// /verif/props: it drives rapid, counts and classifies generated cases, hashes
// the non-trivial ones, keeps samples, applies the known-findings file, writes
// shrunk failures as plain JSON replay files and dumps a stats file that the
// driver (/verif/vcheck) merges into the evidence file.
//
// A property is a pure function  check(case) *Failure  over a JSON-serialisable
// case; rapid only draws the case. Replay therefore needs no library.
package vlib

import (
	"crypto/sha256"
	"encoding/binary"
	"encoding/json"
	"flag"
	"fmt"
	"os"
	"path/filepath"
	"runtime"
	"runtime/debug"
	"sort"
	"strconv"
	"strings"
	"sync"
	"testing"
	"time"

	"pgregory.net/rapid"
)

// Failure describes one violated oracle clause. Kind is a short stable tag
// naming the clause/mechanism (it is what a known-finding line refers to);
// Msg is the human readable detail.
type Failure struct {
	Kind string `json:"kind"`
	Msg  string `json:"msg"`
}

func (f *Failure) Error() string { return f.Kind + ": " + f.Msg }

// Failf builds a Failure.
func Failf(kind, format string, args ...interface{}) *Failure {
	return &Failure{Kind: kind, Msg: fmt.Sprintf(format, args...)}
}

// NT is the class label that marks a case as non-trivial by the property's
// stated rule.
const NT = "nontrivial"

// Prop is one generated-input property.
type Prop[C any] struct {
	Name     string // sub-property name, unique within the package
	Checks   int    // number of cases in the quick tier (whole run, all shards)
	Thorough int    // number of cases in the thorough tier (whole run); 0 = 40×Checks
	Gen      func(t *rapid.T) C
	Check    func(c C) *Failure
	Classes  func(c C) []string // labels for the histogram; include vlib.NT when non-trivial
	// MinFrac: minimal fraction of generated cases that must carry a label,
	// otherwise the run is reported inconclusive (exit 2), not green.
	MinFrac map[string]float64
	// MaxKnownFrac: if the listed known findings explain more than this fraction
	// of the generated cases the run is reported inconclusive (default 0.5).
	MaxKnownFrac float64
	// PanicOK: a panic inside Check is reported with Kind "panic" unless the
	// check itself handles it.
}

type violation struct {
	Prop   string          `json:"prop"`
	Kind   string          `json:"kind"`
	Msg    string          `json:"msg"`
	Replay string          `json:"replay"`
	Case   json.RawMessage `json:"case,omitempty"`
}

type propStats struct {
	Name        string            `json:"name"`
	Requested   int               `json:"requested"`
	Evaluations int               `json:"evaluations"`
	Nontrivial  int               `json:"nontrivial_evaluations"`
	Classes     map[string]int    `json:"classes"`
	Excluded    map[string]int    `json:"excluded_known"`
	Hashes      []string          `json:"nt_hashes"`
	Samples     []json.RawMessage `json:"samples"`
	Exhaustive  bool              `json:"exhaustive"`
	Starved     []string          `json:"starved,omitempty"`
	WallS       float64           `json:"wall_s"`
	Extra       map[string]int    `json:"extra,omitempty"`
	ExcludedEx  map[string]string `json:"excluded_examples,omitempty"`
	// MinFrac / MaxKnownFrac are handed to the driver, which applies them to
	// the totals over all shards (a per-shard test would be needlessly noisy).
	MinFrac      map[string]float64 `json:"min_frac,omitempty"`
	MaxKnownFrac float64            `json:"max_known_frac,omitempty"`
}

type statsFile struct {
	Property   string            `json:"property"`
	Tier       string            `json:"tier"`
	Seed       uint64            `json:"seed"`
	Shard      int               `json:"shard"`
	NShards    int               `json:"nshards"`
	Props      []*propStats      `json:"props"`
	Violations []violation       `json:"violations"`
	KnownHit   map[string]string `json:"known_hit"`
	Replayed   bool              `json:"replayed"`
	Counters   map[string]int    `json:"counters,omitempty"`
	Notes      []string          `json:"notes,omitempty"`
}

var (
	mu     sync.Mutex
	stats  statsFile
	known  map[string]knownFinding // key: class
	propID string
)

type knownFinding struct {
	ID, Class, Text string
}

// Env accessors ------------------------------------------------------------

// Tier returns "quick" or "thorough".
func Tier() string {
	if os.Getenv("VERIF_TIER") == "thorough" {
		return "thorough"
	}
	return "quick"
}

// Thorough reports whether the thorough tier is running.
func Thorough() bool { return Tier() == "thorough" }

// Shard returns (index, count) of this process among the parallel shards.
func Shard() (int, int) {
	i, _ := strconv.Atoi(os.Getenv("VERIF_SHARD"))
	n, _ := strconv.Atoi(os.Getenv("VERIF_NSHARDS"))
	if n <= 0 {
		n = 1
	}
	return i, n
}

// Root is /verif (or VERIF_ROOT).
func Root() string {
	if r := os.Getenv("VERIF_ROOT"); r != "" {
		return r
	}
	return "/verif"
}

// Seed is the rapid seed of this shard.
func Seed() uint64 {
	if f := flag.Lookup("rapid.seed"); f != nil {
		if v, err := strconv.ParseUint(f.Value.String(), 10, 64); err == nil && v != 0 {
			return v
		}
	}
	return 1
}

// Main is called from each package's TestMain.
func Main(m *testing.M, id string) {
	propID = id
	flag.Parse()
	stats.Property = id
	stats.Tier = Tier()
	stats.Shard, stats.NShards = Shard()
	stats.KnownHit = map[string]string{}
	loadKnown(id)
	if f := flag.Lookup("rapid.seed"); f != nil && f.Value.String() == "0" {
		flag.Set("rapid.seed", "1") // 0 means random in rapid; remap
	}
	stats.Seed = Seed()
	flag.Set("rapid.nofailfile", "true")
	code := m.Run()
	writeStats()
	os.Exit(code)
}

func writeStats() {
	path := os.Getenv("VERIF_STATS")
	if path == "" {
		return
	}
	mu.Lock()
	defer mu.Unlock()
	b, err := json.Marshal(&stats)
	if err != nil {
		fmt.Fprintln(os.Stderr, "vlib: cannot marshal stats:", err)
		return
	}
	tmp := path + ".tmp"
	if err := os.WriteFile(tmp, b, 0o644); err == nil {
		os.Rename(tmp, path)
	}
}

func loadKnown(id string) {
	known = map[string]knownFinding{}
	b, err := os.ReadFile(filepath.Join(Root(), "KNOWN-FINDINGS.txt"))
	if err != nil {
		return
	}
	for _, line := range strings.Split(string(b), "\n") {
		line = strings.TrimSpace(line)
		if !strings.HasPrefix(line, "known:") {
			continue
		}
		fields := strings.Fields(strings.TrimPrefix(line, "known:"))
		kf := knownFinding{}
		var prop string
		rest := []string{}
		for _, f := range fields {
			switch {
			case strings.HasPrefix(f, "property="):
				prop = strings.TrimPrefix(f, "property=")
			case strings.HasPrefix(f, "id="):
				kf.ID = strings.TrimPrefix(f, "id=")
			case strings.HasPrefix(f, "class="):
				kf.Class = strings.TrimPrefix(f, "class=")
			default:
				rest = append(rest, f)
			}
		}
		kf.Text = strings.Join(rest, " ")
		if prop == id && kf.Class != "" {
			known[kf.Class] = kf
		}
	}
}

// IsKnown reports whether a failure kind is listed in KNOWN-FINDINGS.txt for
// this property.
func IsKnown(kind string) bool {
	_, ok := known[kind]
	return ok
}

func noteKnown(kind string) {
	kf := known[kind]
	stats.KnownHit[kf.ID] = kf.Class + " " + kf.Text
}

// hashing / samples ---------------------------------------------------------

func caseJSON(c interface{}) []byte {
	b, err := json.Marshal(c)
	if err != nil {
		return []byte(fmt.Sprintf("%q", fmt.Sprintf("%+v", c)))
	}
	return b
}

func hashOf(b []byte) string {
	h := sha256.Sum256(b)
	return fmt.Sprintf("%016x", binary.BigEndian.Uint64(h[:8]))
}

// shorten trims long strings/arrays in a JSON value so that samples stay
// readable; the full case is only written to replay files.
func shorten(v interface{}) interface{} {
	switch x := v.(type) {
	case string:
		if len(x) > 120 {
			return fmt.Sprintf("%s…(%d bytes)", x[:100], len(x))
		}
		return x
	case []interface{}:
		out := make([]interface{}, 0, len(x))
		for i, e := range x {
			if i >= 12 {
				out = append(out, fmt.Sprintf("…(%d items)", len(x)))
				break
			}
			out = append(out, shorten(e))
		}
		return out
	case map[string]interface{}:
		for k, e := range x {
			x[k] = shorten(e)
		}
		return x
	}
	return v
}

func sampleOf(b []byte) json.RawMessage {
	if len(b) <= 1500 {
		return json.RawMessage(b)
	}
	var v interface{}
	if json.Unmarshal(b, &v) != nil {
		return json.RawMessage(strconv.Quote(string(b[:200])))
	}
	out, _ := json.Marshal(shorten(v))
	if len(out) > 6000 {
		return json.RawMessage(strconv.Quote(string(out[:1500]) + "…"))
	}
	return out
}

// SafeCheck runs check and converts a panic into a Failure of kind "panic".
func SafeCheck[C any](check func(C) *Failure, c C) (f *Failure) {
	defer func() {
		if r := recover(); r != nil {
			st := string(debug.Stack())
			if len(st) > 3000 {
				st = st[:3000]
			}
			f = &Failure{Kind: "panic", Msg: fmt.Sprintf("%v\n%s", r, st)}
		}
	}()
	return check(c)
}

type replayFile struct {
	Property string          `json:"property"`
	Prop     string          `json:"prop"`
	Failure  *Failure        `json:"failure,omitempty"`
	Seed     uint64          `json:"seed,omitempty"`
	Case     json.RawMessage `json:"case"`
}

func writeReplay(prop string, cj []byte, f *Failure) string {
	dir := filepath.Join(Root(), "replays")
	os.MkdirAll(dir, 0o755)
	path := filepath.Join(dir, fmt.Sprintf("%s-%s-%s.json", propID, prop, hashOf(cj)[:10]))
	rf := replayFile{Property: propID, Prop: prop, Failure: f, Seed: Seed(), Case: cj}
	b, _ := json.MarshalIndent(&rf, "", " ")
	os.WriteFile(path, b, 0o644)
	return path
}

// replayFor returns the case stored in VERIF_REPLAY if it belongs to prop.
func replayFor(prop string) (json.RawMessage, bool, bool) {
	path := os.Getenv("VERIF_REPLAY")
	if path == "" {
		return nil, false, false
	}
	b, err := os.ReadFile(path)
	if err != nil {
		return nil, true, false
	}
	var rf replayFile
	if json.Unmarshal(b, &rf) != nil || rf.Prop != prop {
		return nil, true, false
	}
	return rf.Case, true, true
}

// Run executes one property under rapid (or replays a saved case).
func Run[C any](t *testing.T, p Prop[C]) {
	t.Helper()
	if raw, replaying, mine := replayFor(p.Name); replaying {
		if !mine {
			return
		}
		var c C
		if err := json.Unmarshal(raw, &c); err != nil {
			t.Fatalf("replay: cannot decode case: %v", err)
		}
		mu.Lock()
		stats.Replayed = true
		mu.Unlock()
		if f := SafeCheck(p.Check, c); f != nil {
			if IsKnown(f.Kind) {
				mu.Lock()
				noteKnown(f.Kind)
				mu.Unlock()
				t.Logf("replay reproduces known finding %s: %s", f.Kind, f.Msg)
				return
			}
			mu.Lock()
			stats.Violations = append(stats.Violations, violation{Prop: p.Name, Kind: f.Kind, Msg: f.Msg, Replay: os.Getenv("VERIF_REPLAY"), Case: sampleOf(raw)})
			mu.Unlock()
			t.Errorf("replay FAILS: %s: %s", f.Kind, f.Msg)
		} else {
			t.Logf("replay passes")
		}
		return
	}
	if only := os.Getenv("VERIF_ONLY"); only != "" && !strings.Contains(","+only+",", ","+p.Name+",") {
		return
	}

	ps := newPropStats(p.Name)
	_, nsh := Shard()
	total := p.Checks
	if Thorough() {
		total = p.Thorough
		if total == 0 {
			total = 40 * p.Checks
		}
	}
	if s := os.Getenv("VERIF_SCALE"); s != "" {
		if f, err := strconv.ParseFloat(s, 64); err == nil && f > 0 {
			total = int(float64(total) * f)
		}
	}
	n := (total + nsh - 1) / nsh
	if n < 1 {
		n = 1
	}
	ps.Requested = n
	flag.Set("rapid.checks", strconv.Itoa(n))

	hashes := map[string]struct{}{}
	var lastFail *Failure
	var lastCase []byte
	failed := false
	start := time.Now()

	t.Run(p.Name, func(t *testing.T) {
		rapid.Check(t, func(rt *rapid.T) {
			c := p.Gen(rt)
			var labels []string
			cj := caseJSON(c)
			if !failed {
				if p.Classes != nil {
					labels = p.Classes(c)
				}
				ps.Evaluations++
				nt := false
				for _, l := range labels {
					ps.Classes[l]++
					if l == NT {
						nt = true
					}
				}
				if nt {
					ps.Nontrivial++
					h := hashOf(cj)
					if _, ok := hashes[h]; !ok {
						hashes[h] = struct{}{}
						if len(ps.Samples) < 4 && (len(hashes)%7 == 1 || len(ps.Samples) == 0) {
							ps.Samples = append(ps.Samples, sampleOf(cj))
						}
					}
				}
			}
			f := SafeCheck(p.Check, c)
			if f == nil {
				return
			}
			if IsKnown(f.Kind) {
				if !failed {
					ps.Excluded[f.Kind]++
					if _, ok := ps.ExcludedEx[f.Kind]; !ok {
						ps.ExcludedEx[f.Kind] = f.Msg
					}
					mu.Lock()
					noteKnown(f.Kind)
					mu.Unlock()
				}
				return
			}
			failed = true
			lastFail, lastCase = f, cj
			rt.Fatalf("%s: %s", f.Kind, f.Msg)
		})
	})
	ps.WallS = time.Since(start).Seconds()
	for h := range hashes {
		ps.Hashes = append(ps.Hashes, h)
	}
	sort.Strings(ps.Hashes)
	if lastFail != nil {
		path := writeReplay(p.Name, lastCase, lastFail)
		mu.Lock()
		stats.Violations = append(stats.Violations, violation{Prop: p.Name, Kind: lastFail.Kind, Msg: lastFail.Msg, Replay: path, Case: sampleOf(lastCase)})
		mu.Unlock()
	} else {
		ps.MinFrac = p.MinFrac
		ps.MaxKnownFrac = p.MaxKnownFrac
		if ps.MaxKnownFrac == 0 {
			ps.MaxKnownFrac = 0.5
		}
	}
	mu.Lock()
	stats.Props = append(stats.Props, ps)
	mu.Unlock()
}

func newPropStats(name string) *propStats {
	return &propStats{Name: name, Classes: map[string]int{}, Excluded: map[string]int{}, Extra: map[string]int{}, ExcludedEx: map[string]string{}}
}

// Enum is a bounded-exhaustive property: Each must call yield for every case
// of a finite space in a fixed order; the runtime shards the space by index.
type Enum[C any] struct {
	Name    string
	Each    func(yield func(C) bool) // yield returns false to stop
	Check   func(c C) *Failure
	Classes func(c C) []string
	// ThoroughOnly enumerations are skipped in the quick tier.
	ThoroughOnly bool
	// KeepHashes: count distinct non-trivial cases by hash (default true for
	// spaces up to a few million cases; otherwise every enumerated case is
	// distinct by construction and is counted directly).
	DistinctByConstruction bool
}

// RunEnum enumerates the space completely (this shard's share of it).
func RunEnum[C any](t *testing.T, p Enum[C]) {
	t.Helper()
	if raw, replaying, mine := replayFor(p.Name); replaying {
		if !mine {
			return
		}
		Run(t, Prop[C]{Name: p.Name, Check: p.Check})
		_ = raw
		return
	}
	if only := os.Getenv("VERIF_ONLY"); only != "" && !strings.Contains(","+only+",", ","+p.Name+",") {
		return
	}
	if p.ThoroughOnly && !Thorough() {
		return
	}
	ps := newPropStats(p.Name)
	ps.Exhaustive = true
	sh, nsh := Shard()
	hashes := map[string]struct{}{}
	distinctCount := 0
	start := time.Now()
	idx := 0
	nviol := 0
	nfail := 0
	seenKinds := map[string]bool{}
	p.Each(func(c C) bool {
		mine := idx%nsh == sh
		idx++
		if !mine {
			return true
		}
		ps.Evaluations++
		nt := false
		if p.Classes != nil {
			for _, l := range p.Classes(c) {
				ps.Classes[l]++
				if l == NT {
					nt = true
				}
			}
		}
		var cj []byte
		if nt {
			ps.Nontrivial++
			if p.DistinctByConstruction {
				distinctCount++
				if len(ps.Samples) < 4 && distinctCount%997 == 1 {
					ps.Samples = append(ps.Samples, sampleOf(caseJSON(c)))
				}
			} else {
				cj = caseJSON(c)
				h := hashOf(cj)
				if _, ok := hashes[h]; !ok {
					hashes[h] = struct{}{}
					if len(ps.Samples) < 4 && len(hashes)%97 == 1 {
						ps.Samples = append(ps.Samples, sampleOf(cj))
					}
				}
			}
		}
		f := SafeCheck(p.Check, c)
		if f == nil {
			return true
		}
		if IsKnown(f.Kind) {
			ps.Excluded[f.Kind]++
			if _, ok := ps.ExcludedEx[f.Kind]; !ok {
				ps.ExcludedEx[f.Kind] = f.Msg
			}
			mu.Lock()
			noteKnown(f.Kind)
			mu.Unlock()
			return true
		}
		nfail++
		if seenKinds[f.Kind] {
			// the enumeration goes on to find other kinds of failure, but not for ever
			return nfail < 12
		}
		seenKinds[f.Kind] = true
		if cj == nil {
			cj = caseJSON(c)
		}
		path := writeReplay(p.Name, cj, f)
		mu.Lock()
		stats.Violations = append(stats.Violations, violation{Prop: p.Name, Kind: f.Kind, Msg: f.Msg, Replay: path, Case: sampleOf(cj)})
		mu.Unlock()
		t.Errorf("%s: %s: %s (replay %s)", p.Name, f.Kind, f.Msg, path)
		nviol++
		return nviol < 5
	})
	ps.WallS = time.Since(start).Seconds()
	ps.Requested = ps.Evaluations
	if p.DistinctByConstruction {
		ps.Extra["distinct_by_construction"] = distinctCount
	}
	for h := range hashes {
		ps.Hashes = append(ps.Hashes, h)
	}
	sort.Strings(ps.Hashes)
	mu.Lock()
	stats.Props = append(stats.Props, ps)
	mu.Unlock()
}

// Count adds n to a named run-wide counter (reported in the evidence).
func Count(key string, n int) {
	mu.Lock()
	if stats.Counters == nil {
		stats.Counters = map[string]int{}
	}
	stats.Counters[key] += n
	mu.Unlock()
}

// WriteReplay stores a failing case of sub-property prop as a replay file and
// returns its path (used by checks that do not run under Run/RunEnum, e.g.
// native fuzz targets).
func WriteReplay(prop string, c interface{}, f *Failure) string {
	if propID == "" {
		propID = os.Getenv("VERIF_PROP")
	}
	return writeReplay(prop, caseJSON(c), f)
}

// Note attaches a free-text note to the stats (shown in the evidence).
func Note(format string, args ...interface{}) {
	mu.Lock()
	stats.Notes = append(stats.Notes, fmt.Sprintf(format, args...))
	mu.Unlock()
}

// ---- watchdogs that tell a deadlock from a slow machine ---------------------------------------

// libraryGoroutines parses a full goroutine dump and returns the scheduler state of every
// goroutine that has a frame in the library under test.
func libraryGoroutines() []string {
	buf := make([]byte, 1<<20)
	n := runtime.Stack(buf, true)
	var states []string
	for _, block := range strings.Split(string(buf[:n]), "\n\n") {
		if !strings.Contains(block, "github.com/biogo/biogo/") {
			continue
		}
		head := block
		if i := strings.IndexByte(block, '\n'); i >= 0 {
			head = block[:i]
		}
		a, b := strings.IndexByte(head, '['), strings.IndexByte(head, ']')
		if a < 0 || b < a {
			continue
		}
		st := head[a+1 : b]
		if i := strings.IndexByte(st, ','); i >= 0 {
			st = st[:i] // "chan receive, 2 minutes"
		}
		states = append(states, st)
	}
	return states
}

func blockedState(st string) bool {
	switch {
	case strings.HasPrefix(st, "chan "), st == "select", st == "select (no cases)",
		strings.HasPrefix(st, "semacquire"), strings.HasPrefix(st, "sync."):
		return true
	}
	return false // running, runnable, syscall, IO wait, sleep (a harness hold), GC ...
}

// ConfirmDeadlock is called when a run has not finished within its first, short bound. It decides
// whether the run is deadlocked or merely slow (a busy machine, a slow disk): if in three samples one
// second apart every goroutine that is executing library code is blocked on a channel or a lock - none
// is running, runnable, in a system call or waiting for I/O - it is a deadlock and true is returned at
// once. Otherwise it keeps waiting, looking again every two seconds, until finished() reports that
// the run has ended (false: not a deadlock) or limit has passed (true).
func ConfirmDeadlock(limit time.Duration, finished func() bool) bool {
	deadline := time.Now().Add(limit)
	streak := 0
	for time.Now().Before(deadline) {
		if finished() {
			Count("slow-run-finished-after-the-first-watchdog-bound", 1)
			return false
		}
		sts := libraryGoroutines()
		all := len(sts) > 0
		for _, st := range sts {
			if !blockedState(st) {
				all = false
			}
		}
		if all {
			streak++
			if streak >= 3 {
				return !finished()
			}
			time.Sleep(time.Second)
			continue
		}
		streak = 0
		time.Sleep(2 * time.Second)
	}
	return !finished()
}
