// Package morassx holds what the morass properties C11, C12 and C13 share:
// element types, the plain-data history format, and a driver that runs a
// history against a real morass.Morass while maintaining the reference model
// (a multiset per cycle).
package morassx

import (
	"fmt"
	"io"
	"os"
	"path/filepath"
	"sort"
	"sync/atomic"

	"github.com/biogo/biogo/morass"
)

// IntT is an int-like element.
type IntT int

func (i IntT) Less(j interface{}) bool { lessHook(); return i < j.(IntT) }

// LessHook, when set, is called at the start of every comparison the sorter asks of an element:
// the harness's foothold inside the sort step of a background writer (C12).
var LessHook atomic.Pointer[func()]

func lessHook() {
	if f := LessHook.Load(); f != nil {
		(*f)()
	}
}

// RecT is a struct element: equal keys with different payloads let the
// checks detect duplication, loss or corruption of individual values.
type RecT struct {
	Key     int
	Payload string
	Extra   int
}

func (r RecT) Less(j interface{}) bool { lessHook(); return r.Key < j.(RecT).Key }

// Cycle is one use cycle: push Keys, finalise, pull Pull values (-1: until
// io.EOF), then Clear if Clear is set (always cleared when another cycle
// follows a partial drain or when AutoClear is off).
type Cycle struct {
	Keys  []int `json:"keys"`
	Pull  int   `json:"pull"`
	Clear bool  `json:"clear"`
	// EOFOnce: after the Pull that returned io.EOF no further Pull is made in this cycle (otherwise
	// a second one checks that io.EOF is stable). With AutoClear and no explicit Clear the next
	// cycle then starts straight after the first io.EOF.
	EOFOnce bool `json:"eof_once,omitempty"`
}

type History struct {
	Chunk      int  `json:"chunk"`
	Struct     bool `json:"struct"`
	AutoClear  bool `json:"auto_clear"`
	AutoClean  bool `json:"auto_clean,omitempty"`
	Concurrent bool `json:"concurrent"`
	// Names selects the file-name prefix handed to morass.New and the name of the parent directory:
	// 0 plain ("run" in "vmorass..."); 1..4 names with characters that mean something to a glob
	// pattern or a format string ("run[1]", "a*b", "so?rt", "p%d") - all legal file names.
	Names int `json:"names,omitempty"`
	// Recover: when a cycle ends with an error from the sorter (only possible under injected faults),
	// call Clear and, if that succeeds, carry on with the next cycle
	Recover bool `json:"recover,omitempty"`
	// PullThrough: when a Pull returns an error other than io.EOF (only possible under injected faults),
	// keep pulling until io.EOF as a caller that logs the error and carries on would; nothing is claimed
	// about the values, the event "drained-after-error N" marks the end of the drain
	PullThrough bool    `json:"pull_through,omitempty"`
	Cycles      []Cycle `json:"cycles"`
}

// Err is a model violation found while running a history.
type Err struct {
	Kind string
	Msg  string
}

func (e *Err) Error() string { return e.Kind + ": " + e.Msg }

func errf(kind, format string, a ...interface{}) *Err {
	return &Err{Kind: kind, Msg: fmt.Sprintf(format, a...)}
}

type item struct {
	key     int
	payload string
	extra   int
}

// Sorter wraps a Morass with its element type.
type Sorter struct {
	M      *morass.Morass
	Struct bool
	Dir    string // parent directory given to morass.New; the sorter's own directory is its only entry
}

// NewSorter creates the sorter inside a fresh parent directory.
func NewSorter(h History) (*Sorter, error) {
	prefix, dirPat := "run", "vmorass"
	switch h.Names {
	case 1:
		prefix, dirPat = "run[1]", "vmo[r]ass"
	case 2:
		prefix, dirPat = "a*b", "vmorass"
	case 3:
		prefix, dirPat = "so?rt", "vmo?rass"
	case 4:
		prefix, dirPat = "p%d", "v%smorass"
	}
	parent, err := os.MkdirTemp("", dirPat)
	if err != nil {
		return nil, err
	}
	var e interface{} = IntT(0)
	if h.Struct {
		e = RecT{}
	}
	m, err := morass.New(e, prefix, parent, h.Chunk, h.Concurrent)
	if err != nil {
		os.RemoveAll(parent)
		return nil, err
	}
	m.AutoClear = h.AutoClear
	m.AutoClean = h.AutoClean
	return &Sorter{M: m, Struct: h.Struct, Dir: parent}, nil
}

// Close removes everything the sorter left on disk.
func (s *Sorter) Close() {
	s.M.CleanUp()
	os.RemoveAll(s.Dir)
}

// OwnDir returns the sorter's temporary directory ("" if it no longer exists).
func (s *Sorter) OwnDir() string {
	es, _ := os.ReadDir(s.Dir)
	for _, e := range es {
		if e.IsDir() {
			return filepath.Join(s.Dir, e.Name())
		}
	}
	return ""
}

// RunFiles lists the run files currently in the sorter's directory.
func (s *Sorter) RunFiles() []string {
	d := s.OwnDir()
	if d == "" {
		return nil
	}
	es, _ := os.ReadDir(d)
	var out []string
	for _, e := range es {
		out = append(out, e.Name())
	}
	return out
}

func (s *Sorter) Push(it item) error {
	if s.Struct {
		return s.M.Push(RecT{Key: it.key, Payload: it.payload, Extra: it.extra})
	}
	return s.M.Push(IntT(it.key))
}

func (s *Sorter) Pull() (item, error) {
	if s.Struct {
		var v RecT
		err := s.M.Pull(&v)
		return item{v.Key, v.Payload, v.Extra}, err
	}
	var v IntT
	err := s.M.Pull(&v)
	return item{int(v), "", 0}, err
}

// Event reports what a run observed (for classification and for C13).
type Outcome struct {
	Spilled    []bool // per cycle: did the cycle spill to disk (pushes >= chunk)
	Recovered  int    // cycles after which Clear was called because the sorter had returned an error
	FirstError error  // first error returned by Push/Finalise/Pull (nil if none)
	ErrorAt    string
	Delivered  [][]int // per cycle: keys pulled, in order
}

// Run executes the history, checking every clause of C11 as it goes. When
// tolerateErrors is set (C13), an error returned by the sorter ends the run
// without being a violation and is reported in the outcome.
func Run(h History, s *Sorter, tolerateErrors bool) (Outcome, *Err) {
	return RunWith(h, s, tolerateErrors, nil)
}

// RunWith is Run with a callback invoked at harness-level events
// ("finalise-returned", "cycle-done"); a non-nil result of the callback ends
// the run as a violation.
func RunWith(h History, s *Sorter, tolerateErrors bool, mark func(string) *Err) (Outcome, *Err) {
	var out Outcome
	fail := func(where string, err error) (Outcome, *Err) {
		if out.FirstError == nil {
			out.FirstError, out.ErrorAt = err, where
		}
		if tolerateErrors {
			return out, nil
		}
		return out, errf("unexpected-error", "%s: %v", where, err)
	}
	for ci := range h.Cycles {
		o, e, erred := runCycle(h, s, ci, &out, fail, mark)
		if e != nil {
			return o, e
		}
		if erred {
			if !(h.Recover && tolerateErrors && ci < len(h.Cycles)-1) {
				return out, nil
			}
			if err := s.M.Clear(); err != nil {
				return out, nil // the sorter says it cannot be reused: nothing more is claimed
			}
			out.Recovered++
		}
	}
	return out, nil
}

// runCycle runs cycle ci; erred reports that the sorter returned an error (tolerated).
func runCycle(h History, s *Sorter, ci int, outp *Outcome, fail func(string, error) (Outcome, *Err), mark func(string) *Err) (Outcome, *Err, bool) {
	out := *outp
	defer func() { *outp = out }()
	erredOut := func(where string, err error) (Outcome, *Err, bool) {
		o, e := fail(where, err)
		out.FirstError, out.ErrorAt = o.FirstError, o.ErrorAt
		return out, e, true
	}
	if mark != nil {
		if e := mark(fmt.Sprintf("cycle-start %d", ci)); e != nil {
			return out, e, false
		}
	}
	{
		c := h.Cycles[ci]
		// AutoClean removes the whole directory when a drain completes, so it is only
		// switched on for the last cycle of a history
		s.M.AutoClean = h.AutoClean && ci == len(h.Cycles)-1
		pushed := map[item]int{}
		spilled := len(c.Keys) >= h.Chunk
		out.Spilled = append(out.Spilled, spilled)
		out.Delivered = append(out.Delivered, nil)
		for i, k := range c.Keys {
			it := item{key: k}
			if h.Struct {
				// payload and extra field are derived from the index; both are zero-valued for some
				// elements so that zero and non-zero fields alternate within a sorted run
				if i%4 != 0 {
					it.payload = fmt.Sprintf("c%d-%d", ci, i)
				}
				if i%3 != 0 {
					it.extra = i*7 + 1
				}
			}
			if err := s.Push(it); err != nil {
				return erredOut(fmt.Sprintf("cycle %d push %d", ci, i), err)
			}
			pushed[it]++
			if got := s.M.Len(); got != int64(i+1) {
				return out, errf("len", "cycle %d: Len() = %d after %d pushes", ci, got, i+1), false
			}
			if got := s.M.Pos(); got != int64(i+1) {
				return out, errf("pos", "cycle %d: Pos() = %d after %d pushes", ci, got, i+1), false
			}
		}
		if err := s.M.Finalise(); err != nil {
			return erredOut(fmt.Sprintf("cycle %d finalise", ci), err)
		}
		if mark != nil {
			if e := mark("finalise-returned"); e != nil {
				return out, e, false
			}
		}
		if got := s.M.Len(); got != int64(len(c.Keys)) {
			return out, errf("len", "cycle %d: Len() = %d after Finalise, %d values were pushed", ci, got, len(c.Keys)), false
		}
		want := c.Pull
		if want < 0 || want > len(c.Keys) {
			want = len(c.Keys) + 1 // until EOF
		}
		pulled := 0
		last := 0
		drained := false
		for pulled < want {
			if got := s.M.Pos(); got != int64(pulled) {
				return out, errf("pos", "cycle %d: Pos() = %d after %d pulls", ci, got, pulled), false
			}
			if got := s.M.Len(); got != int64(len(c.Keys)) {
				return out, errf("len", "cycle %d: Len() = %d after %d pulls, %d values were pushed", ci, got, pulled, len(c.Keys)), false
			}
			it, err := s.Pull()
			if err == io.EOF {
				drained = true
				break
			}
			if err != nil {
				o, e, erred := erredOut(fmt.Sprintf("cycle %d pull %d", ci, pulled), err)
				if e == nil && h.PullThrough {
					for k := 0; k < 3*len(c.Keys)+10; k++ {
						if _, err := s.Pull(); err == io.EOF {
							if mark != nil {
								if e := mark(fmt.Sprintf("drained-after-error %d", ci)); e != nil {
									return out, e, false
								}
							}
							break
						}
					}
				}
				return o, e, erred
			}
			if !h.Struct {
				it.payload, it.extra = "", 0
			}
			if pushed[it] == 0 {
				return out, errf("foreign-value", "cycle %d (%d pushed, chunk %d, spilled=%v): pull %d returned %v which was not pushed in this cycle or was already delivered; delivered so far %v", ci, len(c.Keys), h.Chunk, spilled, pulled, it, out.Delivered[ci]), false
			}
			pushed[it]--
			if pulled > 0 && it.key < last {
				return out, errf("order", "cycle %d: pull %d returned key %d after key %d", ci, pulled, it.key, last), false
			}
			last = it.key
			pulled++
			out.Delivered[ci] = append(out.Delivered[ci], it.key)
		}
		if drained {
			if pulled != len(c.Keys) {
				var missing []int
				for it, n := range pushed {
					for j := 0; j < n; j++ {
						missing = append(missing, it.key)
					}
				}
				sort.Ints(missing)
				return out, errf("lost-values", "cycle %d (%d pushed, chunk %d, spilled=%v): io.EOF after %d values; missing keys %v", ci, len(c.Keys), h.Chunk, spilled, pulled, clip(missing)), false
			}
			// the Pull that reported io.EOF delivered nothing and so moved nothing; the cycle still
			// holds what was pushed until it is cleared
			if !h.AutoClear && !s.M.AutoClean {
				if got := s.M.Len(); got != int64(len(c.Keys)) {
					return out, errf("len", "cycle %d: Len() = %d after the Pull that returned io.EOF, %d values were pushed", ci, got, len(c.Keys)), false
				}
			}
			if !h.AutoClear {
				if got := s.M.Pos(); got != int64(pulled) {
					return out, errf("pos", "cycle %d: Pos() = %d after %d pulls and the Pull that returned io.EOF", ci, got, pulled), false
				}
			}
			// EOF is stable
			if !c.EOFOnce {
				if _, err := s.Pull(); err != io.EOF {
					return out, errf("eof-not-stable", "cycle %d: Pull after io.EOF returned %v", ci, err), false
				}
				if got := s.M.Pos(); !h.AutoClear && got != int64(pulled) {
					return out, errf("pos", "cycle %d: Pos() = %d after %d pulls and two Pulls that returned io.EOF", ci, got, pulled), false
				}
			}
			if mark != nil {
				if e := mark(fmt.Sprintf("drained %d", ci)); e != nil {
					return out, e, false
				}
			}
		} else if want > len(c.Keys) {
			return out, errf("no-eof", "cycle %d: no io.EOF after %d pulls of %d pushed values", ci, pulled, len(c.Keys)), false
		}
		last = 0
		autoCleared := drained && h.AutoClear
		if c.Clear || !autoCleared || ci == len(h.Cycles)-1 && c.Clear {
			if ci < len(h.Cycles)-1 || c.Clear {
				if err := s.M.Clear(); err != nil {
					return erredOut(fmt.Sprintf("cycle %d clear", ci), err)
				}
				autoCleared = true
			}
		}
		if autoCleared {
			if s.M.Len() != 0 || s.M.Pos() != 0 {
				return out, errf("len", "cycle %d: Len/Pos = %d/%d after Clear", ci, s.M.Len(), s.M.Pos()), false
			}
		}
	}
	return out, nil, false
}

func clip(a []int) string {
	if len(a) > 20 {
		return fmt.Sprint(a[:20]) + "…"
	}
	return fmt.Sprint(a)
}
