// Package twin holds element types that carry the same unqualified names as those of package morassx:
// two packages of one program may well both call their sortable type IntT.
package twin

// IntT sorts in DEcreasing numeric order, so that a mix-up with morassx.IntT shows.
type IntT int

func (i IntT) Less(j interface{}) bool { return i > j.(IntT) }

// RecT is a record ordered by its key.
type RecT struct {
	Key  int
	Note string
}

func (r RecT) Less(j interface{}) bool { return r.Key < j.(RecT).Key }
