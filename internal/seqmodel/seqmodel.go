// Package seqmodel is the reference model and the library adapter shared by
// the container properties C05 and C07: a container is plain data (rows of
// letters/qualities with offsets), operations are plain data, the model is
// ordinary Go slices, and the library object is only observed through its
// public API (Rows, Len, Start, End, Row(i).At, Column, ColumnQL, names, strand).
package seqmodel

import (
	"fmt"
	"strings"

	"github.com/biogo/biogo/alphabet"
	"github.com/biogo/biogo/feat"
	"github.com/biogo/biogo/seq"
	"github.com/biogo/biogo/seq/alignment"
	"github.com/biogo/biogo/seq/linear"
	"github.com/biogo/biogo/seq/multi"
	"github.com/biogo/biogo/seq/sequtils"
)

// Row is one sequence row: Q is nil for plain rows.
type Row struct {
	Name   string `json:"name"`
	Offset int    `json:"offset"`
	L      string `json:"l"`
	Q      []int  `json:"q,omitempty"`
	Strand int8   `json:"strand"`
}

func (r Row) End() int { return r.Offset + len(r.L) }

func (r Row) clone() Row {
	c := r
	if r.Q != nil {
		c.Q = append([]int(nil), r.Q...)
	}
	return c
}

// Spec describes a container.
//
// Kind: lseq, lqseq (linear.Seq / linear.QSeq, one row); aseq, aqseq
// (alignment.Seq / alignment.QSeq, equal-length rows, offset 0); multi, multiq
// (multi.Multi over linear.Seq / linear.QSeq rows with offsets); set, setq
// (multi.Set).
type Spec struct {
	Kind  string `json:"kind"`
	Alpha string `json:"alpha"`
	Rows  []Row  `json:"rows"`
}

func (s Spec) Quality() bool {
	switch s.Kind {
	case "lqseq", "aqseq", "multiq", "setq":
		return true
	}
	return false
}

func (s Spec) Aligned() bool  { return s.Kind == "aseq" || s.Kind == "aqseq" }
func (s Spec) IsMulti() bool  { return s.Kind == "multi" || s.Kind == "multiq" }
func (s Spec) IsSet() bool    { return s.Kind == "set" || s.Kind == "setq" }
func (s Spec) IsLinear() bool { return s.Kind == "lseq" || s.Kind == "lqseq" }

// Model is the reference state of a container.
type Model struct {
	Spec
	Strand int8 // container-level strand (linear and alignment kinds)
}

func NewModel(s Spec) *Model {
	m := &Model{Spec: s}
	m.Rows = nil
	for _, r := range s.Rows {
		m.Rows = append(m.Rows, r.clone())
	}
	if s.IsLinear() {
		m.Strand = s.Rows[0].Strand
	}
	return m
}

func (m *Model) Clone() *Model {
	c := &Model{Spec: Spec{Kind: m.Kind, Alpha: m.Alpha}, Strand: m.Strand}
	for _, r := range m.Rows {
		c.Rows = append(c.Rows, r.clone())
	}
	return c
}

func (m *Model) Start() int {
	s := int(^uint(0) >> 1)
	for _, r := range m.Rows {
		if r.Offset < s {
			s = r.Offset
		}
	}
	return s
}

func (m *Model) End() int {
	e := -int(^uint(0)>>1) - 1
	for _, r := range m.Rows {
		if r.End() > e {
			e = r.End()
		}
	}
	return e
}

// Alphabet lookup -------------------------------------------------------------

func Alpha(n string) alphabet.Alphabet {
	switch n {
	case "DNA":
		return alphabet.DNA
	case "DNAgapped":
		return alphabet.DNAgapped
	case "DNAredundant":
		return alphabet.DNAredundant
	case "RNA":
		return alphabet.RNA
	case "RNAgapped":
		return alphabet.RNAgapped
	case "RNAredundant":
		return alphabet.RNAredundant
	case "Protein":
		return alphabet.Protein
	case "PlainDNA":
		return plainDNA
	case "PairedProtein":
		return pairedProtein
	}
	panic("unknown alphabet " + n)
}

// Two user-built alphabets whose molecule type and ability to complement
// disagree (in the built-ins they always agree): a nucleotide alphabet
// without a pairing, and a paired alphabet declared as protein. What
// complements is decided by the Complementor interface, not by the type.
var plainDNA, pairedProtein = func() (alphabet.Alphabet, alphabet.Alphabet) {
	a, err := alphabet.NewAlphabet("-acgtn", feat.DNA, '-', 'n', false)
	if err != nil {
		panic(err)
	}
	p, err := alphabet.NewPairing("lrudxLRUDX-", "rlduxRLDUX-")
	if err != nil {
		panic(err)
	}
	b, err := alphabet.NewComplementor("-lrudx", feat.Protein, p, '-', 'x', false)
	if err != nil {
		panic(err)
	}
	return a, b
}()

// pairings as documented for the built-in alphabets (see also C17)
var pairS = map[string]string{
	"DNA": "acgtnxACGTNX-", "DNAgapped": "acgtnxACGTNX-", "DNAredundant": "acmgrsvtwyhkdbnxACMGRSVTWYHKDBNX-",
	"RNA": "acgunxACGUNX-", "RNAgapped": "acgunxACGUNX-", "RNAredundant": "acmgrsvuwyhkdbnxACMGRSVUWYHKDBNX-",
	"PairedProtein": "lrudxLRUDX-",
}
var pairC = map[string]string{
	"DNA": "tgcanxTGCANX-", "DNAgapped": "tgcanxTGCANX-", "DNAredundant": "tgkcysbawrdmhvnxTGKCYSBAWRDMHVNX-",
	"RNA": "ugcanxUGCANX-", "RNAgapped": "ugcanxUGCANX-", "RNAredundant": "ugkcysbawrdmhvnxUGKCYSBAWRDMHVNX-",
	"PairedProtein": "rlduxRLDUX-",
}

// PairedLetters returns the letters the named complementing alphabet pairs.
func PairedLetters(alpha string) string { return pairS[alpha] }

// Complement of a paired letter, by the documented pairing strings.
func Complement(alpha string, l byte) byte {
	i := strings.IndexByte(pairS[alpha], l)
	if i < 0 {
		panic(fmt.Sprintf("letter %q is not paired in %s", l, alpha))
	}
	return pairC[alpha][i]
}

func revcompRow(alpha string, r *Row, comp bool) {
	n := len(r.L)
	b := make([]byte, n)
	for i := 0; i < n; i++ {
		c := r.L[n-1-i]
		if comp {
			c = Complement(alpha, c)
		}
		b[i] = c
	}
	r.L = string(b)
	if r.Q != nil {
		q := make([]int, n)
		for i := range q {
			q[i] = r.Q[n-1-i]
		}
		r.Q = q
	}
}

// RevComp applies the reference semantics of RevComp (comp) or Reverse (!comp).
func (m *Model) RevComp(comp bool) {
	S, E := 0, 0
	if len(m.Rows) > 0 {
		S, E = m.Start(), m.End()
	}
	for i := range m.Rows {
		r := &m.Rows[i]
		revcompRow(m.Alpha, r, comp)
		if m.IsMulti() {
			// row [s,e) is mirrored about the alignment's span: [S+E-e, S+E-s)
			r.Offset = S + E - (r.Offset + len(r.L))
		}
		if m.IsMulti() || m.IsSet() {
			if comp {
				r.Strand = -r.Strand
			} else {
				r.Strand = 0
			}
		}
	}
	if m.IsLinear() || m.Aligned() {
		if comp {
			m.Strand = -m.Strand
		} else {
			m.Strand = 0
		}
	}
}

// Object: the library container -------------------------------------------------

type Object struct {
	Kind  string
	Alpha string
	LSeq  *linear.Seq
	LQSeq *linear.QSeq
	ASeq  *alignment.Seq
	AQSeq *alignment.QSeq
	Multi *multi.Multi
	Set   multi.Set
}

func qletters(l string, q []int) []alphabet.QLetter {
	out := make([]alphabet.QLetter, len(l))
	for i := range out {
		out[i].L = alphabet.Letter(l[i])
		if q != nil {
			out[i].Q = alphabet.Qphred(q[i])
		} else {
			out[i].Q = seq.DefaultQphred
		}
	}
	return out
}

func buildRow(r Row, alpha alphabet.Alphabet, quality bool) seq.Sequence {
	if quality {
		s := linear.NewQSeq(r.Name, qletters(r.L, r.Q), alpha, alphabet.Sanger)
		s.Offset = r.Offset
		s.Strand = seq.Strand(r.Strand)
		s.Threshold = 0
		return s
	}
	s := linear.NewSeq(r.Name, alphabet.BytesToLetters([]byte(r.L)), alpha)
	s.Offset = r.Offset
	s.Strand = seq.Strand(r.Strand)
	return s
}

// Build constructs the library object for a spec.
func Build(s Spec) (*Object, error) {
	a := Alpha(s.Alpha)
	o := &Object{Kind: s.Kind, Alpha: s.Alpha}
	switch s.Kind {
	case "lseq":
		o.LSeq = buildRow(s.Rows[0], a, false).(*linear.Seq)
	case "lqseq":
		o.LQSeq = buildRow(s.Rows[0], a, true).(*linear.QSeq)
	case "aseq", "aqseq":
		n := len(s.Rows[0].L)
		ids := make([]string, len(s.Rows))
		for i, r := range s.Rows {
			ids[i] = r.Name
		}
		if s.Kind == "aseq" {
			cols := make([][]alphabet.Letter, n)
			for c := range cols {
				cols[c] = make([]alphabet.Letter, len(s.Rows))
				for i, r := range s.Rows {
					cols[c][i] = alphabet.Letter(r.L[c])
				}
			}
			as, err := alignment.NewSeq("aln", ids, cols, a, seq.DefaultConsensus)
			if err != nil {
				return nil, err
			}
			for i, r := range s.Rows {
				as.SubAnnotations[i].Strand = seq.Strand(r.Strand) // rows of an alignment carry their own strand
			}
			o.ASeq = as
		} else {
			cols := make([][]alphabet.QLetter, n)
			for c := range cols {
				cols[c] = make([]alphabet.QLetter, len(s.Rows))
				for i, r := range s.Rows {
					cols[c][i] = alphabet.QLetter{L: alphabet.Letter(r.L[c]), Q: alphabet.Qphred(r.Q[c])}
				}
			}
			as, err := alignment.NewQSeq("aln", ids, cols, a, alphabet.Sanger, seq.DefaultQConsensus)
			if err != nil {
				return nil, err
			}
			as.Threshold = 2
			for i, r := range s.Rows {
				as.SubAnnotations[i].Strand = seq.Strand(r.Strand)
			}
			o.AQSeq = as
		}
	case "multi", "multiq", "set", "setq":
		rows := make([]seq.Sequence, len(s.Rows))
		for i, r := range s.Rows {
			rows[i] = buildRow(r, a, s.Quality())
		}
		if s.IsMulti() {
			m, err := multi.NewMulti("multi", rows, seq.DefaultConsensus)
			if err != nil {
				return nil, err
			}
			o.Multi = m
		} else {
			o.Set = multi.Set(rows)
		}
	default:
		return nil, fmt.Errorf("unknown kind %q", s.Kind)
	}
	return o, nil
}

// rower returns the container as a seq.Rower (nil for linear kinds).
func (o *Object) rower() seq.Rower {
	switch {
	case o.ASeq != nil:
		return o.ASeq
	case o.AQSeq != nil:
		return o.AQSeq
	case o.Multi != nil:
		return o.Multi
	case o.Set != nil:
		return o.Set
	}
	return nil
}

func (o *Object) quality() bool {
	return o.Kind == "lqseq" || o.Kind == "aqseq" || o.Kind == "multiq" || o.Kind == "setq"
}

// Snapshot is everything the public API shows of a container.
type Snapshot struct {
	Rows   []Row
	Strand int8
	NRows  int
	// Span is set when a row reports an extent that is not its length: End() - Start() != Len()
	Span string
}

func spanOf(i int, r seq.Sequence) string {
	if r.End()-r.Start() != r.Len() {
		return fmt.Sprintf("row %d reports Start() %d, End() %d and Len() %d", i, r.Start(), r.End(), r.Len())
	}
	return ""
}

func rowStrand(s seq.Sequence) int8 {
	switch r := s.(type) {
	case *linear.Seq:
		return int8(r.Strand)
	case *linear.QSeq:
		return int8(r.Strand)
	case alignment.Row:
		return int8(r.Align.SubAnnotations[r.Row].Strand)
	case alignment.QRow:
		return int8(r.Align.SubAnnotations[r.Row].Strand)
	}
	return 0
}

func observeRow(s seq.Sequence, quality bool, start, end int) Row {
	r := Row{Name: s.Name(), Offset: start}
	b := make([]byte, 0, end-start)
	if quality {
		r.Q = []int{}
	}
	for p := start; p < end; p++ {
		ql := s.At(p)
		b = append(b, byte(ql.L))
		if quality {
			r.Q = append(r.Q, int(ql.Q))
		}
	}
	r.L = string(b)
	r.Strand = rowStrand(s)
	return r
}

// Observe reads the container through its public API only.
func (o *Object) Observe() Snapshot {
	var sn Snapshot
	switch {
	case o.LSeq != nil:
		sn.Rows = []Row{observeRow(o.LSeq, false, o.LSeq.Start(), o.LSeq.End())}
		sn.Strand = int8(o.LSeq.Strand)
		sn.NRows = 1
	case o.LQSeq != nil:
		sn.Rows = []Row{observeRow(o.LQSeq, true, o.LQSeq.Start(), o.LQSeq.End())}
		sn.Strand = int8(o.LQSeq.Strand)
		sn.NRows = 1
	case o.ASeq != nil:
		sn.NRows = o.ASeq.Rows()
		sn.Strand = int8(o.ASeq.Strand)
		for i := 0; i < sn.NRows; i++ {
			sn.Rows = append(sn.Rows, observeRow(o.ASeq.Row(i), false, o.ASeq.Start(), o.ASeq.End()))
			if sp := spanOf(i, o.ASeq.Row(i)); sp != "" {
				sn.Span = sp
			}
		}
	case o.AQSeq != nil:
		sn.NRows = o.AQSeq.Rows()
		sn.Strand = int8(o.AQSeq.Strand)
		for i := 0; i < sn.NRows; i++ {
			sn.Rows = append(sn.Rows, observeRow(o.AQSeq.Row(i), true, o.AQSeq.Start(), o.AQSeq.End()))
			if sp := spanOf(i, o.AQSeq.Row(i)); sp != "" {
				sn.Span = sp
			}
		}
	default:
		rw := o.rower()
		sn.NRows = rw.Rows()
		for i := 0; i < sn.NRows; i++ {
			r := rw.Row(i)
			sn.Rows = append(sn.Rows, observeRow(r, o.quality(), r.Start(), r.End()))
			if sp := spanOf(i, r); sp != "" {
				sn.Span = sp
			}
		}
	}
	return sn
}

func eqInts(a, b []int) bool {
	if len(a) != len(b) {
		return false
	}
	for i := range a {
		if a[i] != b[i] {
			return false
		}
	}
	return true
}

// Opts selects what CompareRows checks.
type Opts struct {
	Offsets bool
	Strand  bool
	Names   bool
	Quals   bool
}

// CompareRows compares an observation with the model.
func CompareRows(sn Snapshot, m *Model, o Opts) error {
	if sn.NRows != len(m.Rows) || len(sn.Rows) != len(m.Rows) {
		return fmt.Errorf("rows: container has %d rows, expected %d", sn.NRows, len(m.Rows))
	}
	if sn.Span != "" {
		return fmt.Errorf("coordinates: %s", sn.Span)
	}
	for i, w := range m.Rows {
		g := sn.Rows[i]
		if g.L != w.L {
			return fmt.Errorf("letters: row %d: got %q want %q", i, g.L, w.L)
		}
		if o.Quals && w.Q != nil && !eqInts(g.Q, w.Q) {
			return fmt.Errorf("qualities: row %d (%q): got %v want %v", i, w.L, g.Q, w.Q)
		}
		if o.Offsets && g.Offset != w.Offset {
			return fmt.Errorf("coordinates: row %d: occupies [%d,%d) want [%d,%d)", i, g.Offset, g.Offset+len(g.L), w.Offset, w.End())
		}
		if o.Names && g.Name != w.Name {
			return fmt.Errorf("names: row %d: got %q want %q", i, g.Name, w.Name)
		}
		if o.Strand && (m.IsMulti() || m.IsSet()) && g.Strand != w.Strand {
			return fmt.Errorf("strand: row %d: got %d want %d", i, g.Strand, w.Strand)
		}
	}
	if o.Strand && (m.IsLinear() || m.Aligned()) && sn.Strand != m.Strand {
		return fmt.Errorf("strand: got %d want %d", sn.Strand, m.Strand)
	}
	return nil
}

// SameSnapshot reports whether two observations are identical in every
// observable respect (used for clone independence).
func SameSnapshot(a, b Snapshot) error {
	if a.NRows != b.NRows || len(a.Rows) != len(b.Rows) {
		return fmt.Errorf("row count changed from %d to %d", a.NRows, b.NRows)
	}
	if a.Strand != b.Strand {
		return fmt.Errorf("strand changed from %d to %d", a.Strand, b.Strand)
	}
	for i := range a.Rows {
		x, y := a.Rows[i], b.Rows[i]
		if x.L != y.L {
			return fmt.Errorf("row %d letters changed from %q to %q", i, x.L, y.L)
		}
		if !eqInts(x.Q, y.Q) {
			return fmt.Errorf("row %d qualities changed from %v to %v", i, x.Q, y.Q)
		}
		if x.Offset != y.Offset {
			return fmt.Errorf("row %d offset changed from %d to %d", i, x.Offset, y.Offset)
		}
		if x.Name != y.Name {
			return fmt.Errorf("row %d name changed from %q to %q", i, x.Name, y.Name)
		}
		if x.Strand != y.Strand {
			return fmt.Errorf("row %d strand changed from %d to %d", i, x.Strand, y.Strand)
		}
	}
	return nil
}

// Library operations ----------------------------------------------------------

func (o *Object) RevComp() {
	switch {
	case o.LSeq != nil:
		o.LSeq.RevComp()
	case o.LQSeq != nil:
		o.LQSeq.RevComp()
	case o.ASeq != nil:
		o.ASeq.RevComp()
	case o.AQSeq != nil:
		o.AQSeq.RevComp()
	case o.Multi != nil:
		o.Multi.RevComp()
	default:
		o.Set.RevComp()
	}
}

func (o *Object) Reverse() {
	switch {
	case o.LSeq != nil:
		o.LSeq.Reverse()
	case o.LQSeq != nil:
		o.LQSeq.Reverse()
	case o.ASeq != nil:
		o.ASeq.Reverse()
	case o.AQSeq != nil:
		o.AQSeq.Reverse()
	case o.Multi != nil:
		o.Multi.Reverse()
	default:
		o.Set.Reverse()
	}
}

// SetOffset moves the container as a whole; false for multi.Set, which has no such method.
func (o *Object) SetOffset(off int) bool {
	switch {
	case o.LSeq != nil:
		o.LSeq.SetOffset(off)
	case o.LQSeq != nil:
		o.LQSeq.SetOffset(off)
	case o.ASeq != nil:
		o.ASeq.SetOffset(off)
	case o.AQSeq != nil:
		o.AQSeq.SetOffset(off)
	case o.Multi != nil:
		o.Multi.SetOffset(off)
	default:
		return false
	}
	return true
}

// Clone returns a library-level clone of the container.
func (o *Object) Clone() *Object {
	c := &Object{Kind: o.Kind, Alpha: o.Alpha}
	switch {
	case o.LSeq != nil:
		c.LSeq = o.LSeq.Clone().(*linear.Seq)
	case o.LQSeq != nil:
		c.LQSeq = o.LQSeq.Clone().(*linear.QSeq)
	case o.ASeq != nil:
		c.ASeq = o.ASeq.Clone().(*alignment.Seq)
	case o.AQSeq != nil:
		c.AQSeq = o.AQSeq.Clone().(*alignment.QSeq)
	case o.Multi != nil:
		c.Multi = o.Multi.Clone().(*multi.Multi)
	default:
		// multi.Set has no Clone; clone row by row (each row's Clone is under test)
		for _, r := range o.Set {
			c.Set = append(c.Set, r.Clone().(seq.Sequence))
		}
	}
	return c
}

// Row returns row i as a seq.Sequence.
func (o *Object) Row(i int) seq.Sequence {
	switch {
	case o.LSeq != nil:
		return o.LSeq
	case o.LQSeq != nil:
		return o.LQSeq
	}
	return o.rower().Row(i)
}

func (o *Object) NRows() int {
	if o.LSeq != nil || o.LQSeq != nil {
		return 1
	}
	return o.rower().Rows()
}

// Bounds of row i as the container reports them for positional access.
func (o *Object) RowBounds(i int) (int, int) {
	switch {
	case o.ASeq != nil:
		return o.ASeq.Start(), o.ASeq.End()
	case o.AQSeq != nil:
		return o.AQSeq.Start(), o.AQSeq.End()
	}
	r := o.Row(i)
	return r.Start(), r.End()
}

// ColumnTaker gives access to the column views.
func (o *Object) Aligned() seq.Aligned {
	switch {
	case o.ASeq != nil:
		return o.ASeq
	case o.AQSeq != nil:
		return o.AQSeq
	case o.Multi != nil:
		return o.Multi
	}
	return nil
}

// AppendColumns / AppendEach / Delete / Add / Flush / Truncate / Subseq ------------

func (o *Object) AppendColumns(cols [][]alphabet.QLetter) error {
	switch {
	case o.ASeq != nil:
		return o.ASeq.AppendColumns(cols...)
	case o.AQSeq != nil:
		return o.AQSeq.AppendColumns(cols...)
	case o.Multi != nil:
		return o.Multi.AppendColumns(cols...)
	}
	return fmt.Errorf("AppendColumns not supported by %s", o.Kind)
}

func (o *Object) AppendEach(runs [][]alphabet.QLetter) error {
	switch {
	case o.ASeq != nil:
		return o.ASeq.AppendEach(runs)
	case o.AQSeq != nil:
		return o.AQSeq.AppendEach(runs)
	case o.Multi != nil:
		return o.Multi.AppendEach(runs)
	case o.Set != nil:
		return o.Set.AppendEach(runs)
	}
	return fmt.Errorf("AppendEach not supported by %s", o.Kind)
}

func (o *Object) Delete(i int) {
	switch {
	case o.ASeq != nil:
		o.ASeq.Delete(i)
	case o.AQSeq != nil:
		o.AQSeq.Delete(i)
	case o.Multi != nil:
		o.Multi.Delete(i)
	}
}

func (o *Object) Add(r Row) error {
	s := buildRow(r, Alpha(o.Alpha), o.quality())
	switch {
	case o.ASeq != nil:
		return o.ASeq.Add(s)
	case o.AQSeq != nil:
		return o.AQSeq.Add(s)
	case o.Multi != nil:
		return o.Multi.Add(s)
	}
	return fmt.Errorf("Add not supported by %s", o.Kind)
}

func (o *Object) Flush(where int, fill byte) { o.Multi.Flush(where, alphabet.Letter(fill)) }

func (o *Object) Truncate(start, end int) error {
	switch {
	case o.ASeq != nil:
		return sequtils.Truncate(o.ASeq, o.ASeq, start, end)
	case o.AQSeq != nil:
		return sequtils.Truncate(o.AQSeq, o.AQSeq, start, end)
	case o.Multi != nil:
		return o.Multi.Truncate(start, end)
	}
	return fmt.Errorf("Truncate not supported by %s", o.Kind)
}

// Subseq returns a new object holding the sub-alignment (Multi only).
func (o *Object) Subseq(start, end int) (*Object, error) {
	m, err := o.Multi.Subseq(start, end)
	if err != nil {
		return nil, err
	}
	return &Object{Kind: o.Kind, Alpha: o.Alpha, Multi: m}, nil
}
