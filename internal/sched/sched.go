//go:build verif

// Package sched is the harness side of the verif step hooks: it records the
// hook events of a run, can hold the calling goroutine at a step until another
// step has been passed (with a timeout), and can sabotage the file a step is
// about to operate on so that the real operation fails.
package sched

import (
	"bytes"
	"fmt"
	"os"
	"path/filepath"
	"runtime"
	"strconv"
	"sync"
	"syscall"
	"time"
)

// Rule: the goroutine that reaches the Occ-th occurrence of Step waits until
// the UntilOcc-th occurrence of Until has been recorded, or TimeoutMs passes.
type Rule struct {
	Step      string `json:"step"`
	Occ       int    `json:"occ"`
	Until     string `json:"until"`
	UntilOcc  int    `json:"until_occ"`
	TimeoutMs int    `json:"timeout_ms"`
}

// Fault: at the Occ-th occurrence of Step, perform Action on the step's file
// before the real operation runs. Actions: close (close the *os.File so that
// the following write/sync/seek/read fails), rmdir (remove the directory in
// Dir so that the following TempFile fails), readonly (swap the descriptor for a
// read-only one so that writes fail but later seeks and reads work), corrupt (overwrite the file's
// content with garbage so that the following decode fails), truncate (cut the
// last byte off the file so that its final record cannot be read), readonly-once
// (read-only for the one operation that follows: a transient write failure), einval-once (a pipe in the
// file's place for the one operation that follows: Sync fails with EINVAL).
type Fault struct {
	Step   string `json:"step"`
	Occ    int    `json:"occ"`
	Action string `json:"action"`
	// After, when set, names a harness mark (e.g. "cycle-start 1"); the fault is armed only once
	// that mark has been seen and Occ counts the occurrences of Step from then on.
	After string `json:"after,omitempty"`
}

type Event struct {
	Seq  int
	Step string
	Occ  int
	GID  int
	I    int
	File string
}

type HoldResult struct {
	Rule     Rule
	Reached  bool
	Waited   time.Duration
	TimedOut bool
}

type Scheduler struct {
	mu      sync.Mutex
	events  []Event
	counts  map[string]int
	rules   []Rule
	faults  []Fault
	Dir     string // directory removed by the rmdir action
	holds   []HoldResult
	applied []string
	base    map[string]map[string]int // mark name -> step counts when the mark was seen
	restore map[*os.File]int          // readonly-once: the saved writable descriptor of a file
}

func New(rules []Rule, faults []Fault) *Scheduler {
	s := &Scheduler{counts: map[string]int{}, rules: rules, faults: faults}
	for _, r := range rules {
		s.holds = append(s.holds, HoldResult{Rule: r})
	}
	return s
}

func gid() int {
	var buf [64]byte
	n := runtime.Stack(buf[:], false)
	f := bytes.Fields(buf[:n])
	if len(f) >= 2 {
		if id, err := strconv.Atoi(string(f[1])); err == nil {
			return id
		}
	}
	return -1
}

// GID returns the id of the calling goroutine.
func GID() int { return gid() }

// Mark records a harness-level event (e.g. "finalise-returned").
func (s *Scheduler) Mark(step string) { s.Hook(step, nil, 0) }

// Hook is installed as the library's step hook.
func (s *Scheduler) Hook(step string, f *os.File, i int) {
	g := gid()
	s.mu.Lock()
	occ := s.counts[step]
	name := ""
	if f != nil {
		name = filepath.Base(f.Name())
	}
	s.events = append(s.events, Event{Seq: len(s.events), Step: step, Occ: occ, GID: g, I: i, File: name})
	s.counts[step] = occ + 1
	if f == nil && occ == 0 {
		// possibly a harness mark: remember the counts at this moment
		if s.base == nil {
			s.base = map[string]map[string]int{}
		}
		snap := map[string]int{}
		for k, v := range s.counts {
			snap[k] = v
		}
		s.base[step] = snap
	}
	if f != nil {
		// a file made read-only for one operation gets its writable descriptor back at the next step
		if fd, ok := s.restore[f]; ok {
			syscall.Dup2(fd, int(f.Fd()))
			syscall.Close(fd)
			delete(s.restore, f)
		}
	}
	var fault *Fault
	for k := range s.faults {
		ft := &s.faults[k]
		if ft.Step != step {
			continue
		}
		if ft.After == "" {
			if ft.Occ == occ {
				fault = ft
			}
			continue
		}
		if b, ok := s.base[ft.After]; ok && occ-b[step] == ft.Occ {
			fault = ft
		}
	}
	holdIdx := -1
	for k := range s.rules {
		if s.rules[k].Step == step && s.rules[k].Occ == occ {
			holdIdx = k
		}
	}
	s.mu.Unlock()

	if fault != nil {
		s.apply(*fault, f)
	}
	if holdIdx >= 0 {
		r := s.rules[holdIdx]
		start := time.Now()
		deadline := start.Add(time.Duration(r.TimeoutMs) * time.Millisecond)
		timedOut := false
		for {
			s.mu.Lock()
			ok := s.counts[r.Until] > r.UntilOcc
			s.mu.Unlock()
			if ok {
				break
			}
			if time.Now().After(deadline) {
				timedOut = true
				break
			}
			time.Sleep(100 * time.Microsecond)
		}
		s.mu.Lock()
		s.holds[holdIdx].Reached = true
		s.holds[holdIdx].Waited = time.Since(start)
		s.holds[holdIdx].TimedOut = timedOut
		s.mu.Unlock()
	}
}

func (s *Scheduler) apply(ft Fault, f *os.File) {
	desc := ""
	switch ft.Action {
	case "close":
		if f != nil {
			f.Close()
			desc = "closed " + filepath.Base(f.Name())
		}
	case "readonly":
		// replace the descriptor by a read-only one on the same file: the following writes fail,
		// while later seeks and reads on the same *os.File keep working
		if f != nil {
			if ro, err := syscall.Open(f.Name(), syscall.O_RDONLY, 0); err == nil {
				if err := syscall.Dup2(ro, int(f.Fd())); err == nil {
					desc = "made " + filepath.Base(f.Name()) + " read-only"
				}
				syscall.Close(ro)
			}
		}
	case "readonly-once":
		// as readonly, but only for the operation that follows: the next step on the same file
		// restores the writable descriptor (a transient write failure)
		if f != nil {
			if saved, err := syscall.Dup(int(f.Fd())); err == nil {
				if ro, err := syscall.Open(f.Name(), syscall.O_RDONLY, 0); err == nil {
					if err := syscall.Dup2(ro, int(f.Fd())); err == nil {
						desc = "made " + filepath.Base(f.Name()) + " read-only for one operation"
						s.mu.Lock()
						if s.restore == nil {
							s.restore = map[*os.File]int{}
						}
						s.restore[f] = saved
						s.mu.Unlock()
						saved = -1
					}
					syscall.Close(ro)
				}
				if saved >= 0 {
					syscall.Close(saved)
				}
			}
		}
	case "einval-once":
		// the descriptor refers to a pipe for the one operation that follows: an fsync on it fails with
		// EINVAL ("this kind of file cannot be synced"), not with the EBADF of a closed file; the next
		// step on the same file puts the real descriptor back
		if f != nil {
			if saved, err := syscall.Dup(int(f.Fd())); err == nil {
				var pp [2]int
				if err := syscall.Pipe(pp[:]); err == nil {
					if err := syscall.Dup2(pp[1], int(f.Fd())); err == nil {
						desc = "put a pipe in the place of " + filepath.Base(f.Name()) + " for one operation"
						s.mu.Lock()
						if s.restore == nil {
							s.restore = map[*os.File]int{}
						}
						s.restore[f] = saved
						s.mu.Unlock()
						saved = -1
					}
					syscall.Close(pp[0])
					syscall.Close(pp[1])
				}
				if saved >= 0 {
					syscall.Close(saved)
				}
			}
		}
	case "rmdir":
		if s.Dir != "" {
			// (a writer running at the same time may put a new file into the directory while it is
			// being emptied: the removal then fails and the directory stays)
			err := os.RemoveAll(s.Dir)
			if _, serr := os.Stat(s.Dir); err == nil && os.IsNotExist(serr) {
				desc = "removed " + s.Dir
			} else {
				desc = fmt.Sprintf("could not remove %s (%v)", s.Dir, err)
			}
		}
	case "truncate":
		// cut the last byte off the run file: its final record is incomplete, and the read that
		// reaches it fails with an unexpected end of file (a record boundary is never hit: every
		// gob message is at least three bytes long)
		if f != nil {
			if st, err := os.Stat(f.Name()); err == nil && st.Size() >= 2 {
				if os.Truncate(f.Name(), st.Size()-1) == nil {
					desc = fmt.Sprintf("truncated %s to %d bytes", filepath.Base(f.Name()), st.Size()-1)
				}
			}
		}
	case "corrupt":
		if f != nil {
			if st, err := os.Stat(f.Name()); err == nil {
				// a byte pattern every gob decoder rejects ("invalid message length"); zero-length
				// messages, by contrast, are skipped silently and would look like a clean end of file
				junk := bytes.Repeat([]byte{0xf8, 0xff, 0xff, 0xff, 0xff, 0xff, 0xff, 0xff, 0xff}, int(st.Size())/9+4)
				os.WriteFile(f.Name(), junk, 0o600)
				desc = "corrupted " + filepath.Base(f.Name())
			}
		}
	}
	s.mu.Lock()
	s.applied = append(s.applied, fmt.Sprintf("%s@%s#%d: %s", ft.Action, ft.Step, ft.Occ, desc))
	s.mu.Unlock()
}

func (s *Scheduler) Count(step string) int {
	s.mu.Lock()
	defer s.mu.Unlock()
	return s.counts[step]
}

func (s *Scheduler) Events() []Event {
	s.mu.Lock()
	defer s.mu.Unlock()
	return append([]Event(nil), s.events...)
}

func (s *Scheduler) Holds() []HoldResult {
	s.mu.Lock()
	defer s.mu.Unlock()
	return append([]HoldResult(nil), s.holds...)
}

func (s *Scheduler) Applied() []string {
	s.mu.Lock()
	defer s.mu.Unlock()
	return append([]string(nil), s.applied...)
}

// Trace renders the event history (for failure messages).
func (s *Scheduler) Trace(max int) string {
	ev := s.Events()
	var b bytes.Buffer
	for i, e := range ev {
		if i >= max {
			fmt.Fprintf(&b, "… %d more", len(ev)-max)
			break
		}
		fmt.Fprintf(&b, "%s#%d(g%d", e.Step, e.Occ, e.GID)
		if e.File != "" {
			fmt.Fprintf(&b, " %s", e.File)
		}
		if e.I != 0 {
			fmt.Fprintf(&b, " i=%d", e.I)
		}
		b.WriteString(") ")
	}
	return b.String()
}
